#!/bin/bash
# usage: tools_confirm_mut.sh <ID> <mdir> <worktree>   -- confirms a seeded mutation: suite passes with it, demo fails with it, passes without
ID=$1; M=$2; WT=$3
cd $WT || exit 9
git checkout -q -- . ; rm -rf tests
if grep -q "PLACEMENT: paste" $M/demo.rs; then
  F=$(grep -o "src/[a-z_/]*\.rs" $M/demo.rs | head -1)
  # paste after the first `use super::*;` inside the LAST `mod tests`
  python3 - "$F" "$M/demo.rs" <<'PY'
import sys
f, d = sys.argv[1], sys.argv[2]
s = open(f).read(); demo = open(d).read()
i = s.rfind("mod tests {"); j = s.index("use super::*;", i) + len("use super::*;")
open(f, "w").write(s[:j] + "\n" + demo + "\n" + s[j:])
PY
  TESTNAME=$(grep -o "fn demo_[a-z0-9_]*" $M/demo.rs | head -1 | cut -c4-)
  RUN="cargo test --offline --lib $TESTNAME"
  git diff > /tmp/demo_paste.diff
else
  mkdir -p tests; cp $M/demo.rs tests/demo_mut.rs
  RUN="cargo test --offline --test demo_mut"
fi
echo "-- clean tree demo:"; $RUN 2>&1 | grep "test result" | head -2
git apply $M/patch.diff || { echo "PATCH DOES NOT APPLY"; exit 8; }
echo "-- mutated tree suite:"; cargo test --offline --lib 2>&1 | grep "test result" | head -1
echo "-- mutated tree demo:"; $RUN 2>&1 | grep "test result" | head -2
git checkout -q -- . ; rm -rf tests
