//! Verification harnesses compiled into heathcliff::util::basic as child module `verif_v`.
//! C08: multi-word unsigned helpers vs. an independent limb-wise u128 reference.
#![allow(unused, dead_code, non_snake_case)]
use super::*;

#[cfg(kani)]
mod proofs {
    use super::*;

    // ---------- reference big-integer arithmetic on little-endian u64 limbs (u128 per limb) ----------
    fn ref_add(a: &[u64; 3], b: &[u64; 3], c0: u8) -> ([u64; 3], [u8; 3]) {
        // returns all limbs and the carry OUT of each limb
        let mut r = [0u64; 3]; let mut co = [0u8; 3]; let mut c = c0 as u128;
        let s0 = a[0] as u128 + b[0] as u128 + c; r[0] = s0 as u64; c = s0 >> 64; co[0] = c as u8;
        let s1 = a[1] as u128 + b[1] as u128 + c; r[1] = s1 as u64; c = s1 >> 64; co[1] = c as u8;
        let s2 = a[2] as u128 + b[2] as u128 + c; r[2] = s2 as u64; c = s2 >> 64; co[2] = c as u8;
        (r, co)
    }
    fn ref_sub(a: &[u64; 3], b: &[u64; 3], b0: u8) -> ([u64; 3], [u8; 3]) {
        let mut r = [0u64; 3]; let mut bo = [0u8; 3]; let mut bw = b0 as i128;
        let d0 = a[0] as i128 - b[0] as i128 - bw; r[0] = d0 as u64; bw = if d0 < 0 { 1 } else { 0 }; bo[0] = bw as u8;
        let d1 = a[1] as i128 - b[1] as i128 - bw; r[1] = d1 as u64; bw = if d1 < 0 { 1 } else { 0 }; bo[1] = bw as u8;
        let d2 = a[2] as i128 - b[2] as i128 - bw; r[2] = d2 as u64; bw = if d2 < 0 { 1 } else { 0 }; bo[2] = bw as u8;
        (r, bo)
    }
    fn any_len3() -> usize { let n: usize = kani::any(); kani::assume(n >= 1 && n <= 3); n }

    // @harness id=C08 tier=quick unwind=5 timeout=300 memmodel=loop
    // @desc add_u64/add_u64_carry/add_u128(_inplace)/add_uint/add_uint_inplace/add_uint_carry(_inplace)/add_uint_u64(_inplace)/increment_uint: every result limb and the carry-out equal the limb-wise u128 reference
    // @bounds full 64-bit limbs, word count n symbolic in 1..3, incoming carry 0/1; add_uint_carry with operand lengths independently 1..3 (shorter operands zero-extended)
    // @funcs add_u64, add_u64_carry, add_u128, add_u128_inplace, add_uint, add_uint_inplace, add_uint_carry, add_uint_carry_inplace, add_uint_u64, add_uint_u64_inplace, increment_uint, increment_uint_inplace
    #[kani::proof]
    fn c08_add_family() {
        let a: [u64; 3] = kani::any(); let b: [u64; 3] = kani::any();
        let n = any_len3();
        let cin: u8 = kani::any(); kani::assume(cin <= 1);
        let (r0, c0) = ref_add(&a, &b, 0);
        let (rc, cc) = ref_add(&a, &b, cin);
        // scalar
        let mut t = 0u64;
        assert_eq!(add_u64(a[0], b[0], &mut t), c0[0]); assert_eq!(t, r0[0]);
        assert_eq!(add_u64_carry(a[0], b[0], cin, &mut t), cc[0]); assert_eq!(t, rc[0]);
        // u128
        let mut r2 = [0u64; 2];
        assert_eq!(add_u128(&a[..2], &b[..2], &mut r2), c0[1]); assert!(r2[0] == r0[0] && r2[1] == r0[1]);
        let mut a2 = [a[0], a[1]];
        assert_eq!(add_u128_inplace(&mut a2, &b[..2]), c0[1]); assert!(a2[0] == r0[0] && a2[1] == r0[1]);
        // n words
        let mut r = [0u64; 3];
        let c = add_uint(&a[..n], &b[..n], &mut r[..n]);
        assert_eq!(c, c0[n - 1]);
        kani::cover!(c == 1 && n == 3);
        assert!(r[0] == r0[0] && (n < 2 || r[1] == r0[1]) && (n < 3 || r[2] == r0[2]));
        let mut ai = a;
        assert_eq!(add_uint_inplace(&mut ai[..n], &b[..n]), c0[n - 1]);
        assert!(ai[0] == r0[0] && (n < 2 || ai[1] == r0[1]) && (n < 3 || ai[2] == r0[2]));
        // carry variants with independent operand lengths (zero extension)
        let n1 = any_len3(); let n2 = any_len3();
        let az = [a[0], if n1 > 1 { a[1] } else { 0 }, if n1 > 2 { a[2] } else { 0 }];
        let bz = [b[0], if n2 > 1 { b[1] } else { 0 }, if n2 > 2 { b[2] } else { 0 }];
        let (rz, cz) = ref_add(&az, &bz, cin);
        let mut r = [0u64; 3];
        assert_eq!(add_uint_carry(&a[..n1], &b[..n2], cin, &mut r[..n]), cz[n - 1]);
        assert!(r[0] == rz[0] && (n < 2 || r[1] == rz[1]) && (n < 3 || r[2] == rz[2]));
        let mut ai = az;
        assert_eq!(add_uint_carry_inplace(&mut ai[..n], &b[..n2], cin), cz[n - 1]);
        assert!(ai[0] == rz[0] && (n < 2 || ai[1] == rz[1]) && (n < 3 || ai[2] == rz[2]));
        // + u64
        let w: u64 = kani::any();
        let (rw, cw) = ref_add(&a, &[w, 0, 0], 0);
        let mut r = [0u64; 3];
        assert_eq!(add_uint_u64(&a[..n], w, &mut r[..n]), cw[n - 1]);
        assert!(r[0] == rw[0] && (n < 2 || r[1] == rw[1]) && (n < 3 || r[2] == rw[2]));
        let mut ai = a;
        assert_eq!(add_uint_u64_inplace(&mut ai[..n], w), cw[n - 1]);
        assert!(ai[0] == rw[0] && (n < 2 || ai[1] == rw[1]) && (n < 3 || ai[2] == rw[2]));
        let (r1, c1) = ref_add(&a, &[1, 0, 0], 0);
        let mut r = [0u64; 3];
        assert_eq!(increment_uint(&a[..n], &mut r[..n]), c1[n - 1]);
        assert!(r[0] == r1[0] && (n < 2 || r[1] == r1[1]) && (n < 3 || r[2] == r1[2]));
        let mut ai = a;
        assert_eq!(increment_uint_inplace(&mut ai[..n]), c1[n - 1]);
        assert!(ai[0] == r1[0] && (n < 2 || ai[1] == r1[1]) && (n < 3 || ai[2] == r1[2]));
    }

    // @harness id=C08 tier=quick unwind=5 timeout=300 memmodel=loop
    // @desc sub_u64/sub_u64_borrow/sub_uint(_inplace)/sub_uint_borrow(_inplace)/sub_uint_u64(_inplace)/decrement_uint/negate_uint(_inplace): limbs and borrow-out equal the limb-wise i128 reference
    // @bounds full 64-bit limbs, word count n symbolic in 1..3, incoming borrow 0/1, operand lengths independently 1..3 for the borrow variants
    // @funcs sub_u64, sub_u64_borrow, sub_uint, sub_uint_inplace, sub_uint_borrow, sub_uint_borrow_inplace, sub_uint_u64, sub_uint_u64_inplace, decrement_uint, decrement_uint_inplace, negate_uint, negate_uint_inplace
    #[kani::proof]
    fn c08_sub_family() {
        let a: [u64; 3] = kani::any(); let b: [u64; 3] = kani::any();
        let n = any_len3();
        let bin: u8 = kani::any(); kani::assume(bin <= 1);
        let (r0, b0) = ref_sub(&a, &b, 0);
        let (rb, bb) = ref_sub(&a, &b, bin);
        let mut t = 0u64;
        assert_eq!(sub_u64(a[0], b[0], &mut t), b0[0]); assert_eq!(t, r0[0]);
        assert_eq!(sub_u64_borrow(a[0], b[0], bin, &mut t), bb[0]); assert_eq!(t, rb[0]);
        let mut r = [0u64; 3];
        let bo = sub_uint(&a[..n], &b[..n], &mut r[..n]);
        assert_eq!(bo, b0[n - 1]);
        kani::cover!(bo == 1 && n == 3);
        assert!(r[0] == r0[0] && (n < 2 || r[1] == r0[1]) && (n < 3 || r[2] == r0[2]));
        let mut ai = a;
        assert_eq!(sub_uint_inplace(&mut ai[..n], &b[..n]), b0[n - 1]);
        assert!(ai[0] == r0[0] && (n < 2 || ai[1] == r0[1]) && (n < 3 || ai[2] == r0[2]));
        let n1 = any_len3(); let n2 = any_len3();
        let az = [a[0], if n1 > 1 { a[1] } else { 0 }, if n1 > 2 { a[2] } else { 0 }];
        let bz = [b[0], if n2 > 1 { b[1] } else { 0 }, if n2 > 2 { b[2] } else { 0 }];
        let (rz, bzo) = ref_sub(&az, &bz, bin);
        let mut r = [0u64; 3];
        assert_eq!(sub_uint_borrow(&a[..n1], &b[..n2], bin, &mut r[..n]), bzo[n - 1]);
        assert!(r[0] == rz[0] && (n < 2 || r[1] == rz[1]) && (n < 3 || r[2] == rz[2]));
        let mut ai = az;
        assert_eq!(sub_uint_borrow_inplace(&mut ai[..n], &b[..n2], bin), bzo[n - 1]);
        assert!(ai[0] == rz[0] && (n < 2 || ai[1] == rz[1]) && (n < 3 || ai[2] == rz[2]));
        let w: u64 = kani::any();
        let (rw, bw) = ref_sub(&a, &[w, 0, 0], 0);
        let mut r = [0u64; 3];
        assert_eq!(sub_uint_u64(&a[..n], w, &mut r[..n]), bw[n - 1]);
        assert!(r[0] == rw[0] && (n < 2 || r[1] == rw[1]) && (n < 3 || r[2] == rw[2]));
        let mut ai = a;
        assert_eq!(sub_uint_u64_inplace(&mut ai[..n], w), bw[n - 1]);
        assert!(ai[0] == rw[0] && (n < 2 || ai[1] == rw[1]) && (n < 3 || ai[2] == rw[2]));
        let (r1, b1) = ref_sub(&a, &[1, 0, 0], 0);
        let mut r = [0u64; 3];
        assert_eq!(decrement_uint(&a[..n], &mut r[..n]), b1[n - 1]);
        assert!(r[0] == r1[0] && (n < 2 || r[1] == r1[1]) && (n < 3 || r[2] == r1[2]));
        let mut ai = a;
        assert_eq!(decrement_uint_inplace(&mut ai[..n]), b1[n - 1]);
        assert!(ai[0] == r1[0] && (n < 2 || ai[1] == r1[1]) && (n < 3 || ai[2] == r1[2]));
        // negate = 0 - a  (on n words)
        let an = [a[0], if n > 1 { a[1] } else { 0 }, if n > 2 { a[2] } else { 0 }];
        let (rn, _) = ref_sub(&[0, 0, 0], &an, 0);
        let mut r = [0u64; 3];
        negate_uint(&a[..n], &mut r[..n]);
        assert!(r[0] == rn[0] && (n < 2 || r[1] == rn[1]) && (n < 3 || r[2] == rn[2]));
        let mut ai = a;
        negate_uint_inplace(&mut ai[..n]);
        assert!(ai[0] == rn[0] && (n < 2 || ai[1] == rn[1]) && (n < 3 || ai[2] == rn[2]));
    }

    // value of a 3-limb number as (low 128, high 64)
    fn lo128(a: &[u64; 3]) -> u128 { (a[0] as u128) | ((a[1] as u128) << 64) }
    fn hi128(a: &[u64; 3]) -> u128 { (a[1] as u128) | ((a[2] as u128) << 64) }

    // reference shifts on 192 bits through two overlapping 128-bit windows
    fn ref_shl(a: &[u64; 3], s: usize) -> [u64; 3] {
        // s in 0..192
        if s >= 128 { [0, 0, a[0] << (s - 128)] }
        else if s >= 64 { let l = lo128(a) << (s - 64); [0, l as u64, (l >> 64) as u64] }
        else if s == 0 { *a }
        else { let l = lo128(a) << s; let h = hi128(a) << s; [l as u64, (l >> 64) as u64, (h >> 64) as u64] }
    }
    fn ref_shr(a: &[u64; 3], s: usize) -> [u64; 3] {
        if s >= 128 { [a[2] >> (s - 128), 0, 0] }
        else if s >= 64 { let h = hi128(a) >> (s - 64); [h as u64, (h >> 64) as u64, 0] }
        else if s == 0 { *a }
        else { let l = lo128(a) >> s; let h = hi128(a) >> s; [l as u64, h as u64, (h >> 64) as u64] }
    }

    // @harness id=C08 tier=quick unwind=5 timeout=600 memmodel=loop
    // @desc left/right_shift_uint(_inplace) on n words and left/right_shift_u128/u192(_inplace) equal the 192-bit reference shift (computed through overlapping 128-bit windows) truncated to the operand width
    // @bounds full 64-bit limbs; n symbolic in 1..3 with every shift amount 0..64n-1; u128: 0..127; u192: 0..191
    // @funcs left_shift_uint, left_shift_uint_inplace, right_shift_uint, right_shift_uint_inplace, left_shift_u128, left_shift_u128_inplace, right_shift_u128, right_shift_u128_inplace, left_shift_u192, left_shift_u192_inplace, right_shift_u192, right_shift_u192_inplace
    #[kani::proof]
    fn c08_shift_family() {
        let a: [u64; 3] = kani::any();
        let n = any_len3();
        let s: usize = kani::any(); kani::assume(s < 64 * n);
        let an = [a[0], if n > 1 { a[1] } else { 0 }, if n > 2 { a[2] } else { 0 }];
        let l = ref_shl(&an, s); let r = ref_shr(&an, s);
        kani::cover!(n == 3 && s > 64 && s % 64 != 0);
        let mut o = [0u64; 3];
        left_shift_uint(&a[..n], s, n, &mut o[..n]);
        assert!(o[0] == l[0] && (n < 2 || o[1] == l[1]) && (n < 3 || o[2] == l[2]));
        let mut ai = a; left_shift_uint_inplace(&mut ai[..n], s, n);
        assert!(ai[0] == l[0] && (n < 2 || ai[1] == l[1]) && (n < 3 || ai[2] == l[2]));
        let mut o = [0u64; 3];
        right_shift_uint(&a[..n], s, n, &mut o[..n]);
        assert!(o[0] == r[0] && (n < 2 || o[1] == r[1]) && (n < 3 || o[2] == r[2]));
        let mut ai = a; right_shift_uint_inplace(&mut ai[..n], s, n);
        assert!(ai[0] == r[0] && (n < 2 || ai[1] == r[1]) && (n < 3 || ai[2] == r[2]));
        // fixed-width variants
        let s2: usize = kani::any(); kani::assume(s2 < 128);
        let x = lo128(&a);
        let mut o2 = [0u64; 2];
        left_shift_u128(&a[..2], s2, &mut o2); assert_eq!(lo128(&[o2[0], o2[1], 0]), x << s2);
        let mut a2 = [a[0], a[1]]; left_shift_u128_inplace(&mut a2, s2); assert_eq!(lo128(&[a2[0], a2[1], 0]), x << s2);
        right_shift_u128(&a[..2], s2, &mut o2); assert_eq!(lo128(&[o2[0], o2[1], 0]), x >> s2);
        let mut a2 = [a[0], a[1]]; right_shift_u128_inplace(&mut a2, s2); assert_eq!(lo128(&[a2[0], a2[1], 0]), x >> s2);
        let s3: usize = kani::any(); kani::assume(s3 < 192);
        let l3 = ref_shl(&a, s3); let r3 = ref_shr(&a, s3);
        let mut o3 = [0u64; 3];
        left_shift_u192(&a, s3, &mut o3); assert!(o3[0] == l3[0] && o3[1] == l3[1] && o3[2] == l3[2]);
        let mut a3 = a; left_shift_u192_inplace(&mut a3, s3); assert!(a3[0] == l3[0] && a3[1] == l3[1] && a3[2] == l3[2]);
        let mut a3 = a; right_shift_u192_inplace(&mut a3, s3); assert!(a3[0] == r3[0] && a3[1] == r3[1] && a3[2] == r3[2]);
    }

    // @harness id=C08 tier=quick unwind=5 timeout=300 kf=right_shift_u192_noncopy
    // @desc right_shift_u192(operand, s, result) writes operand >> s into result for every s (including s < 64, where no word move is needed)
    // @bounds full 64-bit limbs, s in 0..191, result buffer pre-filled with arbitrary words
    // @funcs right_shift_u192
    #[kani::proof]
    fn c08_right_shift_u192_dest() {
        let a: [u64; 3] = kani::any();
        let s3: usize = kani::any(); kani::assume(s3 < 192);
        let r3 = ref_shr(&a, s3);
        let mut o3: [u64; 3] = kani::any();
        right_shift_u192(&a, s3, &mut o3);
        kani::cover!(s3 < 64);
        assert!(o3[0] == r3[0] && o3[1] == r3[1] && o3[2] == r3[2]);
    }

    // @harness id=C08 tier=quick unwind=5 timeout=300 memmodel=loop
    // @desc compare_uint and the five is_* predicates agree with the numeric order of the zero-extended operands; half_round_up_uint(_inplace) = ceil(x/2); not/and/or/xor limb-wise; significant-bit/word counts, power-of-two test, bit reversal, hamming weight
    // @bounds full 64-bit limbs, operand lengths independently 1..3
    // @funcs compare_uint, is_greater_than_uint, is_greater_than_or_equal_uint, is_less_than_uint, is_less_than_or_equal_uint, is_equal_uint, half_round_up_uint, half_round_up_uint_inplace, not_uint, and_uint, or_uint, xor_uint, get_significant_bit_count, get_significant_bit_count_uint, get_significant_uint64_count_uint, get_nonzero_uint64_count_uint, get_power_of_two, reverse_bits_u32, reverse_bits_u64, hamming_weight, is_zero_uint
    #[kani::proof]
    fn c08_compare_bits_family() {
        let a: [u64; 3] = kani::any(); let b: [u64; 3] = kani::any();
        let n1 = any_len3(); let n2 = any_len3();
        let az = [a[0], if n1 > 1 { a[1] } else { 0 }, if n1 > 2 { a[2] } else { 0 }];
        let bz = [b[0], if n2 > 1 { b[1] } else { 0 }, if n2 > 2 { b[2] } else { 0 }];
        use std::cmp::Ordering::*;
        let expect = if az[2] != bz[2] { if az[2] < bz[2] { Less } else { Greater } }
            else if lo128(&az) < lo128(&bz) { Less } else if lo128(&az) > lo128(&bz) { Greater } else { Equal };
        let got = compare_uint(&a[..n1], &b[..n2]);
        assert!(got == expect);
        kani::cover!(n1 != n2 && got == Equal);
        assert_eq!(is_greater_than_uint(&a[..n1], &b[..n2]), expect == Greater);
        assert_eq!(is_greater_than_or_equal_uint(&a[..n1], &b[..n2]), expect != Less);
        assert_eq!(is_less_than_uint(&a[..n1], &b[..n2]), expect == Less);
        assert_eq!(is_less_than_or_equal_uint(&a[..n1], &b[..n2]), expect != Greater);
        assert_eq!(is_equal_uint(&a[..n1], &b[..n2]), expect == Equal);
        // ceil(x/2) on n words
        let n = n1;
        let sh = ref_shr(&az, 1);
        let (hr, _) = ref_add(&sh, &[az[0] & 1, 0, 0], 0);
        let mut o = [0u64; 3];
        half_round_up_uint(&a[..n], &mut o[..n]);
        assert!(o[0] == hr[0] && (n < 2 || o[1] == hr[1]) && (n < 3 || o[2] == hr[2]));
        let mut ai = a; half_round_up_uint_inplace(&mut ai[..n]);
        assert!(ai[0] == hr[0] && (n < 2 || ai[1] == hr[1]) && (n < 3 || ai[2] == hr[2]));
        // bitwise
        let mut o = [0u64; 3];
        not_uint(&a[..n], &mut o[..n]); assert!(o[0] == !a[0] && (n < 2 || o[1] == !a[1]) && (n < 3 || o[2] == !a[2]));
        and_uint(&a[..n], &b[..n], &mut o[..n]); assert!(o[0] == a[0] & b[0] && (n < 3 || o[2] == a[2] & b[2]));
        or_uint(&a[..n], &b[..n], &mut o[..n]); assert!(o[0] == a[0] | b[0] && (n < 3 || o[2] == a[2] | b[2]));
        xor_uint(&a[..n], &b[..n], &mut o[..n]); assert!(o[0] == a[0] ^ b[0] && (n < 3 || o[2] == a[2] ^ b[2]));
        let mut ai = a; not_uint_inplace(&mut ai[..n]); assert!(ai[0] == !a[0] && (n < 3 || ai[2] == !a[2]));
        let mut ai = a; and_uint_inplace(&mut ai[..n], &b[..n]); assert!(ai[0] == a[0] & b[0] && (n < 2 || ai[1] == a[1] & b[1]));
        let mut ai = a; or_uint_inplace(&mut ai[..n], &b[..n]); assert!(ai[0] == a[0] | b[0] && (n < 2 || ai[1] == a[1] | b[1]));
        let mut ai = a; xor_uint_inplace(&mut ai[..n], &b[..n]); assert!(ai[0] == a[0] ^ b[0] && (n < 2 || ai[1] == a[1] ^ b[1]));
        // counts
        let x = a[0];
        let bc = get_significant_bit_count(x);
        assert!(bc <= 64 && (x == 0) == (bc == 0));
        if bc > 0 { assert!((x >> (bc - 1)) == 1); }
        let wc = get_significant_uint64_count_uint(&a[..n]);
        assert!(wc <= n && (wc == 0 || az[wc - 1] != 0) && (wc > 2 || n < 3 || az[2] == 0) && (wc > 1 || n < 2 || az[1] == 0) && (wc > 0 || az[0] == 0));
        let sb = get_significant_bit_count_uint(&a[..n]);
        if wc == 0 { assert_eq!(sb, 0); } else { assert_eq!(sb, 64 * (wc - 1) + get_significant_bit_count(az[wc - 1])); }
        let nz = get_nonzero_uint64_count_uint(&a[..n]);
        assert_eq!(nz, (az[0] != 0) as usize + (az[1] != 0) as usize + (az[2] != 0) as usize);
        assert_eq!(is_zero_uint(&a[..n]), az[0] == 0 && az[1] == 0 && az[2] == 0);
        let p = get_power_of_two(x);
        if p >= 0 { assert!(p < 64 && x == 1u64 << p); } else { assert!(x == 0 || (x & (x - 1)) != 0); assert!(p == -1); }
        let k: usize = kani::any(); kani::assume(k <= 32);
        let y = a[1] as u32;
        let rv = reverse_bits_u32(y, k);
        let j: usize = kani::any(); kani::assume(j < 32);
        if j < k { assert_eq!((rv >> j) & 1, (y >> (k - 1 - j)) & 1); } else { assert_eq!((rv >> j) & 1, 0); }
        let k6: usize = kani::any(); kani::assume(k6 <= 64);
        let rv6 = reverse_bits_u64(x, k6);
        let j6: usize = kani::any(); kani::assume(j6 < 64);
        if j6 < k6 { assert_eq!((rv6 >> j6) & 1, (x >> (k6 - 1 - j6)) & 1); } else { assert_eq!((rv6 >> j6) & 1, 0); }
        let h = a[2] as u8;
        assert_eq!(hamming_weight(h), h.count_ones() as i32);
    }

    // @harness id=C08 tier=quick unwind=5 timeout=300 kf=set_bit_uint_i32_shift memmodel=loop
    // @desc set_bit_uint sets exactly bit `bit_index` of a multi-word value, for every bit index
    // @bounds word count 1..3, bit index 0..64n-1
    // @funcs set_bit_uint
    #[kani::proof]
    fn c08_set_bit_uint() {
        let a: [u64; 3] = kani::any();
        let n = any_len3();
        let bi: usize = kani::any(); kani::assume(bi < 64 * n);
        kani::cover!(bi % 64 >= 32);
        let mut ai = a; set_bit_uint(&mut ai[..n], bi);
        assert!(ai[bi / 64] == a[bi / 64] | (1u64 << (bi % 64)));
        assert!(bi / 64 == 0 || ai[0] == a[0]);
        assert!(bi / 64 == 1 || ai[1] == a[1]);
        assert!(bi / 64 == 2 || ai[2] == a[2]);
    }

    // sparse 64-bit word: symbolic top byte and bottom byte (carries cross every word boundary, few partial products)
    fn sparse() -> u64 { let h: u8 = kani::any(); let l: u8 = kani::any(); kani::assume(h < 4 && l < 4); ((h as u64) << 62) | (l as u64) }

    // reference product of little-endian limbs, schoolbook in u128, truncated to 4 limbs
    fn ref_mul(a: &[u64; 2], b: &[u64; 2]) -> [u64; 4] {
        let p00 = a[0] as u128 * b[0] as u128; let p01 = a[0] as u128 * b[1] as u128;
        let p10 = a[1] as u128 * b[0] as u128; let p11 = a[1] as u128 * b[1] as u128;
        let r0 = p00 as u64;
        let m = (p00 >> 64) + (p01 as u64 as u128) + (p10 as u64 as u128);
        let r1 = m as u64;
        let h = (m >> 64) + (p01 >> 64) + (p10 >> 64) + (p11 as u64 as u128);
        let r2 = h as u64;
        let r3 = ((h >> 64) + (p11 >> 64)) as u64;
        [r0, r1, r2, r3]
    }

    // @harness id=C08 tier=quick unwind=6 timeout=300
    // @desc multiply_u64_u64 / multiply_u64_high_word = the 128-bit product
    // @bounds operands with symbolic top byte and bottom byte (full-width equivalence of two 128-bit multipliers does not finish in CBMC)
    // @funcs multiply_u64_u64, multiply_u64_high_word
    #[kani::proof]
    fn c08_multiply_u64_u64() {
        let xh: u8 = kani::any(); let xl: u8 = kani::any(); let yh: u8 = kani::any(); let yl: u8 = kani::any();
        let x = ((xh as u64) << 56) | xl as u64; let y = ((yh as u64) << 56) | yl as u64;
        let mut r2 = [0u64; 2]; let mut hw = 0u64;
        multiply_u64_u64(x, y, &mut r2); multiply_u64_high_word(x, y, &mut hw);
        let p = (x as u128) * (y as u128);
        kani::cover!(hw != 0);
        assert!(r2[0] == p as u64 && r2[1] == (p >> 64) as u64 && hw == (p >> 64) as u64);
    }

    fn mul_case(n1: usize, n2: usize, nr: usize) {
        let a = [sparse(), sparse()]; let b = [sparse(), sparse()];
        let az = [a[0], if n1 > 1 { a[1] } else { 0 }]; let bz = [b[0], if n2 > 1 { b[1] } else { 0 }];
        let e = ref_mul(&az, &bz);
        let mut r: [u64; 4] = kani::any();
        multiply_uint(&a[..n1], &b[..n2], &mut r[..nr]);
        kani::cover!(e[nr - 1] != 0);
        assert!(r[0] == e[0] && (nr < 2 || r[1] == e[1]) && (nr < 3 || r[2] == e[2]) && (nr < 4 || r[3] == e[3]));
    }

    // @harness id=C08 tier=quick unwind=6 timeout=600
    // @desc multiply_uint(op1, op2, result) = schoolbook product truncated to the result length, for the operand/result length shapes (1,1,2) (2,1,3) (1,2,3) (2,2,2) (2,2,3) (2,2,4) (2,1,2) (1,2,4)
    // @bounds each operand word has its top 2 and bottom 2 bits symbolic (other bits 0) so carries cross every word boundary; the shape is chosen symbolically among the 8 listed
    // @funcs multiply_uint, multiply_uint_u64, get_significant_uint64_count_uint
    #[kani::proof]
    fn c08_multiply_family() {
        let c: u8 = kani::any();
        match c {
            0 => mul_case(1, 1, 2), 1 => mul_case(2, 1, 3), 2 => mul_case(1, 2, 3), 3 => mul_case(2, 2, 2),
            4 => mul_case(2, 2, 3), 5 => mul_case(2, 2, 4), 6 => mul_case(2, 1, 2), _ => mul_case(1, 2, 4),
        }
    }

    // @harness id=C08 tier=quick unwind=6 timeout=600 memmodel=loop
    // @desc multiply_uint_u64(operand (1..2 words), w, result (1..4 words)) = product truncated to the result length
    // @bounds each word has its top 2 and bottom 2 bits symbolic; lengths symbolic
    // @funcs multiply_uint_u64
    #[kani::proof]
    fn c08_multiply_uint_u64() {
        let a = [sparse(), sparse()];
        let n1: usize = kani::any(); let nr: usize = kani::any();
        kani::assume(n1 >= 1 && n1 <= 2 && nr >= 1 && nr <= 4);
        let az = [a[0], if n1 > 1 { a[1] } else { 0 }];
        let w = sparse();
        let e1 = ref_mul(&az, &[w, 0]);
        let mut r: [u64; 4] = kani::any();
        multiply_uint_u64(&a[..n1], w, &mut r[..nr]);
        kani::cover!(nr == 3 && n1 == 2 && e1[2] != 0);
        assert!(r[0] == e1[0] && (nr < 2 || r[1] == e1[1]) && (nr < 3 || r[2] == e1[2]) && (nr < 4 || r[3] == e1[3]));
    }

    // @harness id=C08 tier=quick unwind=6 timeout=600 kf=multiply_uint_len1 memmodel=loop
    // @desc multiply_uint with a one-word result returns the low word of operand1*operand2
    // @bounds operand lengths 1..2, all 64-bit words of the low limbs (full width), result length 1
    // @funcs multiply_uint
    #[kani::proof]
    fn c08_multiply_uint_len1() {
        let a: [u64; 2] = kani::any(); let b: [u64; 2] = kani::any();
        let n1: usize = kani::any(); let n2: usize = kani::any();
        kani::assume(n1 >= 1 && n1 <= 2 && n2 >= 1 && n2 <= 2);
        let mut r = [0u64; 1];
        multiply_uint(&a[..n1], &b[..n2], &mut r);
        kani::cover!(a[0] != b[0]);
        assert!(r[0] == a[0].wrapping_mul(b[0]));
    }

    // @harness id=C08 tier=quick unwind=6 timeout=600 kf=multiply_uint_u64_inplace_zeroes memmodel=loop
    // @desc multiply_uint_u64_inplace(operand, w) leaves operand*w (truncated to the operand length) in operand
    // @bounds operand length 1..3, sparse words (top 2 and bottom 2 bits symbolic)
    // @funcs multiply_uint_u64_inplace
    #[kani::proof]
    fn c08_multiply_uint_u64_inplace() {
        let a = [sparse(), sparse()];
        let n: usize = kani::any(); kani::assume(n >= 1 && n <= 2);
        let w = sparse();
        let az = [a[0], if n > 1 { a[1] } else { 0 }];
        let e = ref_mul(&az, &[w, 0]);
        let mut ai = a;
        multiply_uint_u64_inplace(&mut ai[..n], w);
        kani::cover!(n == 2 && w != 0 && a[0] != 0);
        assert!(ai[0] == e[0] && (n < 2 || ai[1] == e[1]));
    }

    fn many_case(k: usize) {
        let f = |h: u8, l: u8| { kani::assume(h < 4 && l < 4); ((h as u64) << 59) | (l as u64) };
        let ops = [f(kani::any(), kani::any()), f(kani::any(), kani::any()), f(kani::any(), kani::any())];
        let mut r = [0u64; 3];
        multiply_many_u64(&ops[..k], &mut r[..k]);
        let p01 = ref_mul(&[ops[0], 0], &[ops[1], 0]);
        let p012 = ref_mul(&[p01[0], p01[1]], &[ops[2], 0]);
        kani::cover!(k < 3 || p012[2] != 0);
        if k == 1 { assert!(r[0] == ops[0]); }
        if k == 2 { assert!(r[0] == p01[0] && r[1] == p01[1]); }
        if k == 3 { assert!(r[0] == p012[0] && r[1] == p012[1] && r[2] == p012[2]); }
    }

    // @harness id=C08 tier=quick unwind=5 timeout=600
    // @desc multiply_many_u64(ops, result): result = product of k words (k = 1, 2, 3), little-endian in k limbs
    // @bounds k chosen symbolically among 1..3 (each case with concrete slice lengths); each factor < 2^61 with bits 59..60 and 0..1 symbolic
    // @funcs multiply_many_u64, multiply_uint_u64, set_uint
    #[kani::proof]
    fn c08_multiply_many() {
        let c: u8 = kani::any();
        match c { 0 => many_case(1), 1 => many_case(2), _ => many_case(3) }
    }

    // @harness id=C08 tier=quick unwind=5 timeout=600
    // @desc multi-word modular helpers (increment/decrement/negate/div2/add/add_inplace/sub _uint_mod) equal the u128 reference for operands below the modulus
    // @bounds word count 2 (128-bit values), modulus any value >= 2 below 2^127 (so a+b does not wrap 128 bits... carry branch covered separately with modulus up to 2^128-1 for add), operands < modulus
    // @funcs increment_uint_mod, decrement_uint_mod, negate_uint_mod, div2_uint_mod, add_uint_mod, add_uint_mod_inplace, sub_uint_mod
    #[kani::proof]
    fn c08_uint_mod_family() {
        let m: u128 = kani::any(); let a: u128 = kani::any(); let b: u128 = kani::any();
        kani::assume(m >= 2 && a < m && b < m);
        let w = |x: u128| [x as u64, (x >> 64) as u64];
        let v = |r: &[u64; 2]| (r[0] as u128) | ((r[1] as u128) << 64);
        let mut r = [0u64; 2];
        // a + b mod m without overflow of the reference: use (a - (m - b)) when a >= m - b
        let sum = if b == 0 { a } else if a >= m - b { a - (m - b) } else { a + b };
        add_uint_mod(&w(a), &w(b), &w(m), &mut r); assert_eq!(v(&r), sum);
        kani::cover!(a.checked_add(b).is_none());
        let mut ai = w(a); add_uint_mod_inplace(&mut ai, &w(b), &w(m)); assert_eq!(v(&ai), sum);
        let diff = if a >= b { a - b } else { m - (b - a) };
        sub_uint_mod(&w(a), &w(b), &w(m), &mut r); assert_eq!(v(&r), diff);
        increment_uint_mod(&w(a), &w(m), &mut r); assert_eq!(v(&r), if a == m - 1 { 0 } else { a + 1 });
        decrement_uint_mod(&w(a), &w(m), &mut r); assert_eq!(v(&r), if a == 0 { m - 1 } else { a - 1 });
        negate_uint_mod(&w(a), &w(m), &mut r); assert_eq!(v(&r), if a == 0 { 0 } else { m - a });
        if m & 1 == 1 && (a & 1 == 0 || a.checked_add(m).is_some()) {
            // (the 129-bit carry case of the odd branch is c08_div2_uint_mod_carry)
            div2_uint_mod(&w(a), &w(m), &mut r);
            let h = v(&r);
            // 2h == a (mod m), h < m
            assert!(h < m);
            let twice = if h >= m - h { h - (m - h) } else { h + h };
            assert_eq!(twice, a);
        }
    }

    // @harness id=C08 tier=quick unwind=8 timeout=1800 mem=24
    // @desc multi-word division with remainder (bit-wise algorithm), two-word divisor 2^64+3: quotient * d + remainder == numerator and remainder < d, including the exact divisions (remainder 0, numerator = k*d)
    // @bounds two-word operands; divisor 2^64+3 (concrete); numerator = (hi, lo) with the high word 1, 2 and 6 in turn (concrete per case, so that the operand bit lengths and scratch sizes are concrete) and the low word any 64-bit value; quotients below 7: the bit-wise loop runs at most 3 rounds (unwinding assertion)
    // @funcs divide_uint, divide_uint_inplace, left_shift_uint, left_shift_uint_inplace, right_shift_uint_inplace, sub_uint, add_uint_inplace, get_significant_bit_count_uint
    #[kani::proof]
    fn c08_divide_uint_multiword() {
        let lo: u64 = kani::any();
        div_case(lo, 1); div_case(lo, 2); div_case(lo, 6);
    }
    fn div_case(lo: u64, hi: u64) {
        let d = (1u128 << 64) + 3;
        let n = (lo as u128) | ((hi as u128) << 64);
        let mut q = [0u64; 2]; let mut r = [0u64; 2];
        divide_uint(&[lo, hi], &[d as u64, (d >> 64) as u64], &mut q, &mut r);
        let qv = (q[0] as u128) | ((q[1] as u128) << 64); let rv = (r[0] as u128) | ((r[1] as u128) << 64);
        if hi == 6 { kani::cover!(rv == 0); kani::cover!(rv != 0 && qv == 5); }
        assert!(rv < d && qv <= hi as u128);
        assert!(qv * d + rv == n);
    }

    // @harness id=C08 tier=quick unwind=5 timeout=300 kf=set_bit_uint_i32_shift
    // @desc div2_uint_mod for odd operands whose sum with the modulus carries out of the top word: result h < m with 2h = a (mod m)
    // @bounds word count 2, odd modulus >= 2^127, odd operand with a + m >= 2^128
    // @funcs div2_uint_mod, set_bit_uint, right_shift_uint_inplace, add_uint
    #[kani::proof]
    fn c08_div2_uint_mod_carry() {
        let m: u128 = kani::any(); let a: u128 = kani::any();
        kani::assume(m & 1 == 1 && a < m && a & 1 == 1 && a.checked_add(m).is_none());
        let w = |x: u128| [x as u64, (x >> 64) as u64];
        let mut r = [0u64; 2];
        div2_uint_mod(&w(a), &w(m), &mut r);
        let h = (r[0] as u128) | ((r[1] as u128) << 64);
        kani::cover!(true);
        assert!(h < m);
        let twice = if h >= m - h { h - (m - h) } else { h + h };
        assert_eq!(twice, a);
    }

    #[cfg(test)] include!("/verif/.build/playback/util_basic_v.rs");
}
