//! Compiled into heathcliff::util as child module `verif_v`: crate-wide names for the verification
//! children of util's private submodules.
#![allow(unused, dead_code)]
pub(crate) use super::basic::verif_v as basic;
pub(crate) use super::galois::verif_v as galois;
pub(crate) use super::number_theory::verif_v as number_theory;
pub(crate) use super::ntt::verif_v as ntt;
pub(crate) use super::rns::verif_v as rns;
pub(crate) use super::uintsmallmod::verif_v as uintsmallmod;
pub(crate) use super::random_generator::verif_v as random_generator;
pub(crate) use super::dwthandler::verif_v as dwthandler;
pub(crate) use super::polysmallmod::verif_v as polysmallmod;
pub(crate) use super::rlwe::verif_v as rlwe;
pub(crate) use super::scaling_variant::verif_v as scaling_variant;
