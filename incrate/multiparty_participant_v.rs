//! Verification harnesses compiled into heathcliff::multiparty/participant as child module `verif_v`.
#![allow(unused, dead_code, non_snake_case)]
use super::*;

pub(crate) fn mk_participant(context: Arc<HeContext>, keygen: KeyGenerator, count: usize, id: usize) -> Participant {
    let rng = crate::util::verif_v::random_generator::mk_blake_rng([0u8; crate::util::verif_v::random_generator::BUF], crate::util::PRNGSeed([0u8; 64]), 1, 0);
    Participant { common_rng: Rc::new(RefCell::new(rng)), evaluator: crate::evaluator::verif_v::mk_evaluator(context.clone()), context, key_generator: keygen, participant_count: count, participant_id: id }
}

#[cfg(kani)]
mod proofs {
    use super::*;
    use crate::verif_v::lits;
    use crate::serialize::verif_v::{Sink, Src};
    use crate::text::verif_v::{mk_ciphertext, mk_plaintext};
    use crate::key::verif_v::{mk_keygen, mk_secret_key};

    fn participant(ctx: &Arc<HeContext>, pid: ParmsID, count: usize, id: usize) -> Participant {
        let sk = mk_secret_key(mk_plaintext(2, vec![1, 1], pid, 1.0));
        mk_participant(ctx.clone(), mk_keygen(ctx.clone(), sk, vec![1, 1]), count, id)
    }

    // @harness id=C18 tier=quick unwind=10 timeout=2400 fs=4096
    // @desc share revelation with 3 parties: whatever the delivery order of the other parties' messages (through the real polynomial serializer), finish() returns own share + sum of the received shares mod q -- identical for both orders; a party that has not received every other party's message refuses to finish
    // @bounds BFV N=2, q={97}; 3 parties, party 0's view; shares = all canonical polynomials; delivery order symbolic (2 orders); missing-message case symbolic
    // @funcs PolynomialRevelationProtocol::receive, PolynomialRevelationProtocol::send, PolynomialRevelationProtocol::finish, PolynomialSerializer::{serialize_polynomial,deserialize_polynomial}, polysmallmod::add_inplace_p
    // @stubs HeContext::get_context_data -> linear search over the literal chain; alloc::sync::Arc::drop_slow -> no-op
    #[kani::proof]
    #[kani::stub(crate::context::HeContext::get_context_data, crate::context::verif_v::get_context_data_stub)]
    #[kani::stub(alloc::sync::Arc::drop_slow, crate::verif_v::arc_drop_slow_noop)]
    fn c18_reveal_any_delivery_order() {
        let ctx = lits::ctx_bfv_n2_1p();
        let pid = *ctx.first_parms_id();
        let p0 = participant(&ctx, pid, 3, 0); let p1 = participant(&ctx, pid, 3, 1); let p2 = participant(&ctx, pid, 3, 2);
        let s: [u8; 6] = kani::any();
        kani::assume(s[0] < 97 && s[1] < 97 && s[2] < 97 && s[3] < 97 && s[4] < 97 && s[5] < 97);
        let sh = |a: u8, b: u8| vec![a as u64, b as u64];
        let mut r0 = PolynomialRevelationProtocol { parms_id: pid, participant: &p0, broadcasted: vec![None, None, None], result: sh(s[0], s[1]) };
        let r1 = PolynomialRevelationProtocol { parms_id: pid, participant: &p1, broadcasted: vec![None, None, None], result: sh(s[2], s[3]) };
        let r2 = PolynomialRevelationProtocol { parms_id: pid, participant: &p2, broadcasted: vec![None, None, None], result: sh(s[4], s[5]) };
        let mut m1 = Sink::new(); r1.send(&mut m1).unwrap();
        let mut m2 = Sink::new(); r2.send(&mut m2).unwrap();
        let order: bool = kani::any();
        if order {
            r0.receive(1, &mut Src { buf: m1.buf, pos: 0, end: m1.len }).unwrap();
            r0.receive(2, &mut Src { buf: m2.buf, pos: 0, end: m2.len }).unwrap();
        } else {
            r0.receive(2, &mut Src { buf: m2.buf, pos: 0, end: m2.len }).unwrap();
            r0.receive(1, &mut Src { buf: m1.buf, pos: 0, end: m1.len }).unwrap();
        }
        let out = r0.finish();
        kani::cover!(!order);
        assert!(out.len() == 2);
        assert!(out[0] == (s[0] as u64 + s[2] as u64 + s[4] as u64) % 97);
        assert!(out[1] == (s[1] as u64 + s[3] as u64 + s[5] as u64) % 97);
        std::mem::forget(ctx);
    }

    // @harness id=C18 tier=quick unwind=10 timeout=2400 fs=4096
    // @desc share revelation under histories where a peer's message arrives BEFORE the party has sent its own, and where a message is delivered twice: the party still broadcasts exactly its OWN share (byte-identical to what it sends when nothing has arrived), and finish() still returns own share + each other share once
    // @bounds BFV N=2, q={97}; 3 parties, party 0's view; shares = all canonical polynomials; history: receive(1); send; receive(1) again; receive(2); finish
    // @funcs PolynomialRevelationProtocol::receive, PolynomialRevelationProtocol::send, PolynomialRevelationProtocol::finish
    // @stubs HeContext::get_context_data -> linear search over the literal chain; alloc::sync::Arc::drop_slow -> no-op
    #[kani::proof]
    #[kani::stub(crate::context::HeContext::get_context_data, crate::context::verif_v::get_context_data_stub)]
    #[kani::stub(alloc::sync::Arc::drop_slow, crate::verif_v::arc_drop_slow_noop)]
    fn c18_receive_before_send_and_redelivery() {
        let ctx = lits::ctx_bfv_n2_1p();
        let pid = *ctx.first_parms_id();
        let p0 = participant(&ctx, pid, 3, 0); let p1 = participant(&ctx, pid, 3, 1); let p2 = participant(&ctx, pid, 3, 2);
        let s: [u8; 6] = kani::any();
        kani::assume(s[0] < 97 && s[1] < 97 && s[2] < 97 && s[3] < 97 && s[4] < 97 && s[5] < 97);
        let sh = |a: u8, b: u8| vec![a as u64, b as u64];
        let mut r0 = PolynomialRevelationProtocol { parms_id: pid, participant: &p0, broadcasted: vec![None, None, None], result: sh(s[0], s[1]) };
        let quiet = PolynomialRevelationProtocol { parms_id: pid, participant: &p0, broadcasted: vec![None, None, None], result: sh(s[0], s[1]) };
        let r1 = PolynomialRevelationProtocol { parms_id: pid, participant: &p1, broadcasted: vec![None, None, None], result: sh(s[2], s[3]) };
        let r2 = PolynomialRevelationProtocol { parms_id: pid, participant: &p2, broadcasted: vec![None, None, None], result: sh(s[4], s[5]) };
        let mut m1 = Sink::new(); r1.send(&mut m1).unwrap();
        let mut m2 = Sink::new(); r2.send(&mut m2).unwrap();
        r0.receive(1, &mut Src { buf: m1.buf, pos: 0, end: m1.len }).unwrap();
        let mut m0 = Sink::new(); r0.send(&mut m0).unwrap();
        let mut mq = Sink::new(); quiet.send(&mut mq).unwrap();
        let k: usize = kani::any(); kani::assume(k < 128);
        kani::cover!(s[2] != 0 && k < mq.len);
        assert!(m0.len == mq.len && m0.buf[k] == mq.buf[k]);
        r0.receive(1, &mut Src { buf: m1.buf, pos: 0, end: m1.len }).unwrap();
        r0.receive(2, &mut Src { buf: m2.buf, pos: 0, end: m2.len }).unwrap();
        let out = r0.finish();
        assert!(out.len() == 2);
        assert!(out[0] == (s[0] as u64 + s[2] as u64 + s[4] as u64) % 97);
        assert!(out[1] == (s[1] as u64 + s[3] as u64 + s[5] as u64) % 97);
        std::mem::forget(ctx);
    }

    // @harness id=C18 tier=quick unwind=10 timeout=2400 fs=4096
    // @desc a party that is still missing another party's message refuses to finish (panics) instead of producing a partial sum
    // @bounds BFV N=2, q={97}; 3 parties; exactly one of the two foreign messages delivered (which one: symbolic)
    // @funcs PolynomialRevelationProtocol::receive, PolynomialRevelationProtocol::finish
    // @stubs HeContext::get_context_data -> linear search over the literal chain; alloc::sync::Arc::drop_slow -> no-op
    // @expect panic:Not all participants have sent
    #[kani::proof]
    #[kani::stub(crate::context::HeContext::get_context_data, crate::context::verif_v::get_context_data_stub)]
    #[kani::stub(alloc::sync::Arc::drop_slow, crate::verif_v::arc_drop_slow_noop)]
    fn c18_finish_refuses_when_incomplete() {
        let ctx = lits::ctx_bfv_n2_1p();
        let pid = *ctx.first_parms_id();
        let p0 = participant(&ctx, pid, 3, 0); let p1 = participant(&ctx, pid, 3, 1);
        let mut r0 = PolynomialRevelationProtocol { parms_id: pid, participant: &p0, broadcasted: vec![None, None, None], result: vec![1, 2] };
        let r1 = PolynomialRevelationProtocol { parms_id: pid, participant: &p1, broadcasted: vec![None, None, None], result: vec![3, 4] };
        let mut m1 = Sink::new(); r1.send(&mut m1).unwrap();
        let which: bool = kani::any();
        r0.receive(if which { 1 } else { 2 }, &mut Src { buf: m1.buf, pos: 0, end: m1.len }).unwrap();
        let _ = r0.finish();
        kani::cover!(true, "AFTER: incomplete protocol finished");
    }

    // @harness id=C18 tier=thorough unwind=20 timeout=3000 fs=4096 mem=40 kf=bgv_collective_decrypt_scale_and_round
    // @desc final decoding of a collectively computed BGV phase: phase = m + t*e (centred), in the representation of the reference ciphertext, decodes to m / factor mod t for any correction factor
    // @bounds BGV N=2, q={97,113}, t=17; phase m + t*e with every m < t, e = (3,-5), correction factor 1 or 3; the polynomial given in NTT form (reference ciphertext in NTT form) or in coefficient form; coefficient 0 checked
    // @funcs multiparty::participant::decrypt_polynomial, RNSTool::decrypt_scale_and_round, RNSTool::decrypt_mod_t
    // @stubs HeContext::get_context_data -> linear search over the literal chain; alloc::sync::Arc::drop_slow -> no-op
    #[kani::proof]
    #[kani::stub(crate::context::HeContext::get_context_data, crate::context::verif_v::get_context_data_stub)]
    #[kani::stub(alloc::sync::Arc::drop_slow, crate::verif_v::arc_drop_slow_noop)]
    fn c18_decrypt_polynomial_bgv() {
        let ctx = lits::ctx_bgv_n2_2p1();
        let pid = *ctx.first_parms_id();
        let m: [u8; 2] = kani::any(); let e: [i8; 2] = [3, -5]; let f3: bool = kani::any(); let f: u8 = if f3 { 3 } else { 1 };
        kani::assume(m[0] < 17 && m[1] < 17);
        // phase_i = m_i + 17*e_i mod Q, in RNS form (coefficient domain)
        let res = |i: usize, q: i64| (((m[i] as i64 + 17 * e[i] as i64) % q + q) % q) as u64;
        let mut phase = [res(0, 97), res(1, 97), res(0, 113), res(1, 113)];
        // the collectively computed polynomial has the representation of the ciphertext: NTT form (BGV's default) or coefficient form
        let ntt: bool = kani::any();
        if ntt { let cd = ctx.first_context_data().unwrap(); crate::polymod::ntt_p(&mut phase, 2, cd.small_ntt_tables()); std::mem::forget(cd); }
        let reference = mk_ciphertext(2, 2, 2, vec![0; 8], pid, 1.0, ntt, f as u64);
        let p = decrypt_polynomial(&ctx, &phase, &reference, &pid);
        // expected plaintext: m * f^-1 mod t
        let mut inv = 0u64; let mut k = 1u64; while k < 17 { if (k * f as u64) % 17 == 1 { inv = k; } k += 1; }
        let e0 = (m[0] as u64 * inv) % 17;
        kani::cover!(m[0] > 8 && ntt);
        kani::cover!(m[0] > 8 && !ntt);
        assert!(p.data()[0] == e0);
        std::mem::forget(ctx);
    }

    #[cfg(test)] include!("/verif/.build/playback/multiparty_participant_v.rs");
}
