//! Verification harnesses compiled into heathcliff::batch_encoder as child module `verif_v`.
#![allow(unused, dead_code, non_snake_case)]
