//! Verification harnesses compiled into heathcliff::batch_encoder as child module `verif_v`.
#![allow(unused, dead_code, non_snake_case)]
use super::*;

#[cfg(kani)]
mod proofs {
    use super::*;
    use crate::verif_v::lits;
    use crate::util::verif_v::galois as gv;

    const T: u64 = 17;
    fn sym_slots() -> [u64; 4] { let a: [u8; 4] = kani::any(); kani::assume(a[0] < 17 && a[1] < 17 && a[2] < 17 && a[3] < 17); [a[0] as u64, a[1] as u64, a[2] as u64, a[3] as u64] }
    fn pow3(e: usize, m: usize) -> usize { let mut r = 1usize; let mut i = 0; while i < e { r = (r * 3) % m; i += 1; } r }

    // @harness id=C11 tier=quick unwind=8 timeout=2400 fs=4096
    // @desc BatchEncoder::new builds the documented index map: slot i of row 0 -> bit-reversed (3^i - 1)/2, row 1 -> bit-reversed (2N - 3^i - 1)/2, and the map is a permutation of 0..N-1
    // @bounds BFV N=4, t=17 (batching), q={97,113}
    // @funcs BatchEncoder::new
    // @stubs HeContext::get_context_data -> linear search over the literal chain; alloc::sync::Arc::drop_slow -> no-op
    #[kani::proof]
    #[kani::stub(crate::context::HeContext::get_context_data, crate::context::verif_v::get_context_data_stub)]
    #[kani::stub(alloc::sync::Arc::drop_slow, crate::verif_v::arc_drop_slow_noop)]
    fn c11_index_map() {
        let ctx = lits::ctx_bfv_n4_2p1();
        let be = BatchEncoder::new(ctx.clone());
        assert!(be.slots == 4 && be.matrix_reps_index_map.len() == 4);
        let i: usize = kani::any(); kani::assume(i < 2);
        let pos = pow3(i, 8);
        kani::cover!(i == 1);
        assert!(be.matrix_reps_index_map[i] == crate::util::reverse_bits_u64(((pos - 1) >> 1) as u64, 2) as usize);
        assert!(be.matrix_reps_index_map[i + 2] == crate::util::reverse_bits_u64(((8 - pos - 1) >> 1) as u64, 2) as usize);
        let m = &be.matrix_reps_index_map;
        assert!(m[0] != m[1] && m[0] != m[2] && m[0] != m[3] && m[1] != m[2] && m[1] != m[3] && m[2] != m[3] && m[0] < 4 && m[1] < 4 && m[2] < 4 && m[3] < 4);
        std::mem::forget(be); std::mem::forget(ctx);
    }

    // @harness id=C11 tier=quick unwind=8 timeout=2400 fs=4096
    // @desc decode(encode(v)) == v for every slot vector; the encoded plaintext has N canonical coefficients
    // @bounds BFV N=4, t=17, q={97,113}; all slot vectors over Z_17 (full length)
    // @funcs BatchEncoder::encode, BatchEncoder::decode, NTTTables::{ntt_negacyclic_harvey,inverse_ntt_negacyclic_harvey} (plain modulus tables), Plaintext::is_valid_for
    // @stubs HeContext::get_context_data -> linear search over the literal chain; alloc::sync::Arc::drop_slow -> no-op
    #[kani::proof]
    #[kani::stub(crate::context::HeContext::get_context_data, crate::context::verif_v::get_context_data_stub)]
    #[kani::stub(alloc::sync::Arc::drop_slow, crate::verif_v::arc_drop_slow_noop)]
    fn c11_roundtrip_full() {
        let ctx = lits::ctx_bfv_n4_2p1();
        let be = BatchEncoder::new(ctx.clone());
        let v = sym_slots();
        let p = be.encode_new(&v);
        let d = be.decode_new(&p);
        let k: usize = kani::any(); kani::assume(k < 4);
        kani::cover!(v[k] != 0);
        assert!(p.coeff_count() == 4 && p.data().len() == 4 && p.data()[k] < T && d.len() == 4);
        assert!(d[k] == v[k]);
        std::mem::forget(be); std::mem::forget(ctx);
    }

    // @harness id=C11 tier=quick unwind=8 timeout=2400 fs=4096
    // @desc shorter inputs are zero-padded (decode(encode(v[..2])) = [v0, v1, 0, 0]); encode_polynomial reduces every coefficient mod t and decode_polynomial returns it
    // @bounds BFV N=4, t=17; input length 2; polynomial of 3 arbitrary 16-bit coefficients
    // @funcs BatchEncoder::encode, BatchEncoder::decode, BatchEncoder::encode_polynomial, BatchEncoder::decode_polynomial
    // @stubs HeContext::get_context_data -> linear search over the literal chain; alloc::sync::Arc::drop_slow -> no-op
    #[kani::proof]
    #[kani::stub(crate::context::HeContext::get_context_data, crate::context::verif_v::get_context_data_stub)]
    #[kani::stub(alloc::sync::Arc::drop_slow, crate::verif_v::arc_drop_slow_noop)]
    fn c11_short_and_polynomial() {
        let ctx = lits::ctx_bfv_n4_2p1();
        let be = BatchEncoder::new(ctx.clone());
        let v = sym_slots();
        let p = be.encode_new(&v[..2]);
        let d = be.decode_new(&p);
        let k: usize = kani::any(); kani::assume(k < 4);
        kani::cover!(v[1] != 0);
        assert!(d[k] == if k >= 2 { 0 } else { v[k] });
        let w16: [u16; 3] = kani::any(); let w = [w16[0] as u64, w16[1] as u64, w16[2] as u64];   // 16-bit coefficients: the full-width reduction is engine M's (Modulus::reduce)
        let pp = be.encode_polynomial_new(&w);
        assert!(pp.coeff_count() == 3 && pp.data()[1] == w[1] % T);
        let back = be.decode_polynomial_new(&pp);
        assert!(back.len() == 3 && back[2] == w[2] % T);
        std::mem::forget(be); std::mem::forget(ctx);
    }

    // @harness id=C11 tier=quick unwind=8 timeout=2400 fs=4096
    // @desc encoding a SHORT vector into a REUSED destination (a plaintext holding arbitrary previous coefficients) zero-pads: the result decodes to [v0, v1, 0, 0]
    // @bounds BFV N=4, t=17, q={97,113}; previous destination: 4 arbitrary coefficients below t; short input of length 2 over Z_17
    // @funcs BatchEncoder::encode, BatchEncoder::decode_new
    // @stubs HeContext::get_context_data -> linear search over the literal chain; alloc::sync::Arc::drop_slow -> no-op
    #[kani::proof]
    #[kani::stub(crate::context::HeContext::get_context_data, crate::context::verif_v::get_context_data_stub)]
    #[kani::stub(alloc::sync::Arc::drop_slow, crate::verif_v::arc_drop_slow_noop)]
    fn c11_reused_destination_zero_pads() {
        let ctx = lits::ctx_bfv_n4_2p1();
        let be = BatchEncoder::new(ctx.clone());
        let old = sym_slots(); let v = sym_slots();
        let mut dest = crate::text::verif_v::mk_plaintext(4, old.to_vec(), crate::PARMS_ID_ZERO, 1.0);
        be.encode(&v[..2], &mut dest);
        let d = be.decode_new(&dest);
        let k: usize = kani::any(); kani::assume(k < 4);
        kani::cover!(old[3] != 0 && v[1] != 0);
        assert!(d.len() == 4 && d[k] == if k >= 2 { 0 } else { v[k] });
        std::mem::forget(be); std::mem::forget(ctx);
    }

    // @harness id=C11 tier=quick unwind=8 timeout=2400 fs=4096
    // @desc decoding a plaintext that stores FEWER than N coefficients (the constant polynomial x mod t, as produced by encode_polynomial) fills ALL N slots: every slot equals x mod t
    // @bounds BFV N=4, t=17; constant x any 16-bit value
    // @funcs BatchEncoder::encode_polynomial_new, BatchEncoder::decode_new
    // @stubs HeContext::get_context_data -> linear search over the literal chain; alloc::sync::Arc::drop_slow -> no-op
    #[kani::proof]
    #[kani::stub(crate::context::HeContext::get_context_data, crate::context::verif_v::get_context_data_stub)]
    #[kani::stub(alloc::sync::Arc::drop_slow, crate::verif_v::arc_drop_slow_noop)]
    fn c11_short_plaintext_decodes_to_all_slots() {
        let ctx = lits::ctx_bfv_n4_2p1();
        let be = BatchEncoder::new(ctx.clone());
        let x16: u16 = kani::any(); let x = x16 as u64;        // 16-bit constants (incl. t, 2t, ...): the full-width reduction is decided by engine M (Modulus::reduce)
        let c = be.encode_polynomial_new(&[x]);
        assert!(c.coeff_count() == 1 && c.data()[0] == x % T);
        let dc = be.decode_new(&c);
        let k: usize = kani::any(); kani::assume(k < 4);
        kani::cover!(x % T == 16);
        assert!(dc.len() == 4 && dc[k] == x % T);
        std::mem::forget(be); std::mem::forget(ctx);
    }

    // @harness id=C11 tier=quick unwind=8 timeout=2400 fs=4096
    // @desc the polynomial automorphism for rotation step s (Galois element get_elt_from_step(s)) acts on the decoded 2 x N/2 matrix as a cyclic LEFT rotation of both rows by s, and the element for step 0 (2N-1) swaps the two rows
    // @bounds BFV N=4, t=17; all slot vectors; steps -1, +1 (all steps with 0 < |s| < N/2) and the column swap
    // @funcs BatchEncoder::encode, BatchEncoder::decode, GaloisTool::apply, GaloisTool::get_elt_from_step
    // @stubs HeContext::get_context_data -> linear search over the literal chain; alloc::sync::Arc::drop_slow -> no-op
    #[kani::proof]
    #[kani::stub(crate::context::HeContext::get_context_data, crate::context::verif_v::get_context_data_stub)]
    #[kani::stub(alloc::sync::Arc::drop_slow, crate::verif_v::arc_drop_slow_noop)]
    fn c11_galois_is_rotation() {
        let ctx = lits::ctx_bfv_n4_2p1();
        let be = BatchEncoder::new(ctx.clone());
        let v = sym_slots();
        let p = be.encode_new(&v);
        let gt = gv::mk_galois_tool(2, 4, std::sync::RwLock::new(vec![vec![], vec![], vec![], vec![]]));
        let tm = crate::modulus::verif_v::mk_modulus(17, true);
        let c: u8 = kani::any();
        let step: isize = match c { 0 => 1, 1 => -1, _ => 0 };
        let g = gt.get_elt_from_step(step);
        let mut out = [0u64; 4];
        gt.apply(p.data(), g, &tm, &mut out);
        let rp = crate::text::verif_v::mk_plaintext(4, out.to_vec(), crate::PARMS_ID_ZERO, 1.0);
        let d = be.decode_new(&rp);
        kani::cover!(c == 1 && v[0] != v[1]);
        // rows: [v0 v1] / [v2 v3]; row length 2
        match c {
            0 | 1 => { assert!(d[0] == v[1] && d[1] == v[0] && d[2] == v[3] && d[3] == v[2]); }   // rotation by +-1 on rows of length 2
            _ => { assert!(d[0] == v[2] && d[1] == v[3] && d[2] == v[0] && d[3] == v[1]); }
        }
        std::mem::forget(be); std::mem::forget(ctx);
    }

    #[cfg(test)] include!("/verif/.build/playback/batch_encoder_v.rs");
}
