//! Verification harnesses compiled into heathcliff::multiparty/utils as child module `verif_v`.
#![allow(unused, dead_code, non_snake_case)]
