//! Verification harnesses compiled into heathcliff::encryptor as child module `verif_v`.
#![allow(unused, dead_code, non_snake_case)]
use super::*;
use crate::text::verif_v::{mk_ciphertext, mk_plaintext};

pub(crate) fn mk_decryptor(context: Arc<HeContext>, secret_key_array: Vec<u64>) -> Decryptor {
    Decryptor { context, secret_key_array: RwLock::new(secret_key_array) }
}
pub(crate) fn mk_encryptor(context: Arc<HeContext>, public_key: Option<PublicKey>, secret_key: Option<SecretKey>) -> Encryptor {
    Encryptor { context, public_key, secret_key }
}

#[cfg(kani)]
mod proofs {
    use super::*;
    use crate::verif_v::lits;

    fn tern(x: u8, q: u64) -> u64 { match x { 0 => 0, 1 => 1, _ => q - 1 } }

    // @harness id=C01 tier=thorough unwind=10 timeout=6000 fs=4096
    // @desc BFV decryption of an ARBITRARY size-2 ciphertext under an arbitrary ternary secret key returns round(t * phase / q) mod t coefficient-wise, where phase = c0 + c1*s in Z_q[X]/(X^2+1) (computed by the harness in the coefficient domain); in particular a fresh encryption Delta*m + v with |v| below the threshold decrypts to m. The result plaintext is trimmed to its significant coefficients.
    // @bounds BFV N=2, q={97}, t=3; all ciphertext residues, all ternary keys (NTT form obtained with the real transform); coefficient index symbolic
    // @funcs Decryptor::decrypt, Decryptor::bfv_decrypt, Decryptor::dot_product_ct_sk_array, Decryptor::compute_secret_key_array, RNSTool::decrypt_scale_and_round, polysmallmod::{ntt_p,intt_p,dyadic_product_inplace_p,add_inplace_p}
    // @stubs HeContext::get_context_data -> linear search over the literal chain (HashMap lookup outside the claim); alloc::sync::Arc::drop_slow -> no-op (memory reclamation outside the claim)
    #[kani::proof]
    #[kani::stub(crate::context::HeContext::get_context_data, crate::context::verif_v::get_context_data_stub)]
    #[kani::stub(alloc::sync::Arc::drop_slow, crate::verif_v::arc_drop_slow_noop)]
    fn c01_bfv_decrypt_is_scale_and_round() {
        let ctx = lits::ctx_bfv_n2_1p();
        let pid = *ctx.first_parms_id();
        let q = 97u64; let t = 3u64;
        let sk: [u8; 2] = kani::any(); kani::assume(sk[0] < 3 && sk[1] < 3);
        let s = [tern(sk[0], q), tern(sk[1], q)];
        let mut s_ntt = s;
        { let cd = ctx.key_context_data().unwrap(); polymod::ntt_p(&mut s_ntt, 2, cd.small_ntt_tables()); std::mem::forget(cd); }
        let dec = mk_decryptor(ctx.clone(), s_ntt.to_vec());
        let c: [u8; 4] = kani::any(); kani::assume(c[0] < 97 && c[1] < 97 && c[2] < 97 && c[3] < 97);
        let ct = mk_ciphertext(2, 1, 2, vec![c[0] as u64, c[1] as u64, c[2] as u64, c[3] as u64], pid, 1.0, false, 1);
        let p = dec.decrypt_new(&ct);
        // phase in the coefficient domain: (c1_0 + c1_1 X)(s_0 + s_1 X) mod X^2+1
        let (c00, c01, c10, c11) = (c[0] as u64, c[1] as u64, c[2] as u64, c[3] as u64);
        let ph0 = (c00 + c10 * s[0] + (q * q - c11 * s[1])) % q;
        let ph1 = (c01 + c10 * s[1] + c11 * s[0]) % q;
        let m0 = ((2 * t * ph0 + q) / (2 * q)) % t;
        let m1 = ((2 * t * ph1 + q) / (2 * q)) % t;
        kani::cover!(m1 != 0 && sk[1] == 2);
        let n = p.coeff_count();
        assert!(n == if m1 != 0 { 2 } else { 1 } && p.data().len() == n);
        assert!(p.data()[0] == m0 && (n < 2 || p.data()[1] == m1));
        assert!(!p.is_ntt_form());
        std::mem::forget(dec); std::mem::forget(ctx);
    }

    // @harness id=C01 tier=thorough unwind=10 timeout=3600 fs=4096
    // @desc BGV decryption of an ARBITRARY size-2 NTT-form ciphertext returns, coefficient-wise, the centred phase reduced modulo t (times the inverse correction factor), and the plaintext is trimmed to its LEADING non-zero coefficient (a zero coefficient below the leading one is kept), never below one coefficient
    // @bounds BGV N=2, q={97}, t=17; all ciphertext residues (given in NTT form); secret key s = 1 - X (concrete); correction factor 1 or 3 (symbolic choice)
    // @funcs Decryptor::decrypt, Decryptor::bgv_decrypt, Decryptor::dot_product_ct_sk_array, RNSTool::decrypt_mod_t, BaseConverter::exact_convey_array, polysmallmod::{intt_p,multiply_scalar_inplace}, get_significant_uint64_count_uint, Plaintext::resize
    // @stubs HeContext::get_context_data -> linear search over the literal chain (HashMap lookup outside the claim); alloc::sync::Arc::drop_slow -> no-op (memory reclamation outside the claim)
    #[kani::proof]
    #[kani::stub(crate::context::HeContext::get_context_data, crate::context::verif_v::get_context_data_stub)]
    #[kani::stub(alloc::sync::Arc::drop_slow, crate::verif_v::arc_drop_slow_noop)]
    fn c01_bgv_decrypt_centred_mod_t_and_trim() {
        let ctx = lits::ctx_bgv_n2_1p();
        let pid = *ctx.first_parms_id();
        let q = 97u64; let t = 17u64;
        let s = [1u64, q - 1];
        let mut s_ntt = s;
        { let cd = ctx.key_context_data().unwrap(); polymod::ntt_p(&mut s_ntt, 2, cd.small_ntt_tables()); std::mem::forget(cd); }
        let dec = mk_decryptor(ctx.clone(), s_ntt.to_vec());
        // the phase is chosen in the coefficient domain; the ciphertext is (phase - c1*s, c1) with c1 = 0 + 5 X, transformed with the real NTT
        let ph: [u8; 2] = kani::any(); kani::assume(ph[0] < 97 && ph[1] < 97);
        let c1 = [0u64, 5];
        // c1*s = (5X)(1 - X) = 5X - 5X^2 = 5 + 5X
        let mut c0 = [(ph[0] as u64 + q - 5) % q, (ph[1] as u64 + q - 5) % q];
        let mut c1n = c1;
        { let cd = ctx.first_context_data().unwrap(); polymod::ntt_p(&mut c0, 2, cd.small_ntt_tables()); polymod::ntt_p(&mut c1n, 2, cd.small_ntt_tables()); std::mem::forget(cd); }
        let cf3: bool = kani::any();
        let ct = mk_ciphertext(2, 1, 2, vec![c0[0], c0[1], c1n[0], c1n[1]], pid, 1.0, true, if cf3 { 3 } else { 1 });
        let p = dec.decrypt_new(&ct);
        let cen = |x: u64| if x >= (q + 1) / 2 { (t - (q - x) % t) % t } else { x % t };
        let fix = if cf3 { 6 } else { 1 };                          // 3^-1 mod 17 = 6
        let m0 = cen(ph[0] as u64) * fix % t; let m1 = cen(ph[1] as u64) * fix % t;
        kani::cover!(m0 == 0 && m1 != 0);
        kani::cover!(m1 == 0 && m0 != 0);
        let n = p.coeff_count();
        assert!(n == if m1 != 0 { 2 } else { 1 } && p.data().len() == n);
        assert!(p.data()[0] == m0 && (n < 2 || p.data()[1] == m1));
        assert!(!p.is_ntt_form());
        std::mem::forget(dec); std::mem::forget(ctx);
    }

    // @harness id=C01 tier=quick unwind=10 timeout=2400 fs=4096
    // @desc scaling_variant::multiply_add_plain / multiply_sub_plain add resp. subtract exactly round-half-up(q*m/t) = floor((q*m + floor((t+1)/2)) / t) to every RNS component of the destination, for every plaintext coefficient m < t (incl. 0, t-1, the upper half) and short plaintexts (remaining coefficients untouched)
    // @bounds BFV N=2, q={97,113} (Q=10961), t=17 (batching prime) -- parameter corner t=16 (power of two, q in non-ascending order) in c01_multiply_add_plain_pow2t; plaintext length 1 or 2; all m < t; all prior destination residues
    // @funcs scaling_variant::multiply_add_plain, scaling_variant::multiply_sub_plain, multiply_u64operand_add_u64_mod, divide_u128_u64_inplace
    // @stubs HeContext::get_context_data -> linear search over the literal chain; alloc::sync::Arc::drop_slow -> no-op
    #[kani::proof]
    #[kani::stub(crate::context::HeContext::get_context_data, crate::context::verif_v::get_context_data_stub)]
    #[kani::stub(alloc::sync::Arc::drop_slow, crate::verif_v::arc_drop_slow_noop)]
    fn c01_multiply_add_plain() {
        let ctx = lits::ctx_bfv_n2_2p1();
        scale_case(&ctx, [97, 113], 17);
        std::mem::forget(ctx);
    }
    // @harness id=C01 tier=quick unwind=10 timeout=2400 fs=4096
    // @desc as c01_multiply_add_plain at the parameter corner t = 2^4 with the coefficient primes in non-ascending order
    // @bounds BFV N=2, q={113,97}, t=16
    // @funcs scaling_variant::multiply_add_plain, scaling_variant::multiply_sub_plain
    // @stubs HeContext::get_context_data -> linear search over the literal chain; alloc::sync::Arc::drop_slow -> no-op
    #[kani::proof]
    #[kani::stub(crate::context::HeContext::get_context_data, crate::context::verif_v::get_context_data_stub)]
    #[kani::stub(alloc::sync::Arc::drop_slow, crate::verif_v::arc_drop_slow_noop)]
    fn c01_multiply_add_plain_pow2t() {
        let ctx = lits::ctx_bfv_n2_pow2t();
        scale_case(&ctx, [113, 97], 16);
        std::mem::forget(ctx);
    }
    // @harness id=C01 tier=quick unwind=10 timeout=2400 fs=4096
    // @desc as c01_multiply_add_plain at the parameter corner of a plain modulus LARGER than the first prime with (Q mod t) >= q_0 (no fast plain lift; the stored non-RNS remainder Q mod t must not be reduced by q_0)
    // @bounds BFV N=2, q={97,113}, t=1009; all m < t
    // @funcs scaling_variant::multiply_add_plain, scaling_variant::multiply_sub_plain, HeContext::validate (coeff_modulus_mod_plain_modulus, coeff_div_plain_modulus through the literal)
    // @stubs HeContext::get_context_data -> linear search over the literal chain; alloc::sync::Arc::drop_slow -> no-op
    #[kani::proof]
    #[kani::stub(crate::context::HeContext::get_context_data, crate::context::verif_v::get_context_data_stub)]
    #[kani::stub(alloc::sync::Arc::drop_slow, crate::verif_v::arc_drop_slow_noop)]
    fn c01_multiply_add_plain_bigt() {
        let ctx = lits::ctx_bfv_n2_bigt();
        let cd = ctx.first_context_data().unwrap();
        let (q, t) = ([97u64, 113], 1009u64);
        let qq = q[0] * q[1];
        let m: u16 = kani::any(); kani::assume((m as u64) < t);
        let plain = mk_plaintext(1, vec![m as u64], crate::PARMS_ID_ZERO, 1.0);
        let d: [u8; 4] = kani::any();
        kani::assume((d[0] as u64) < q[0] && (d[1] as u64) < q[0] && (d[2] as u64) < q[1] && (d[3] as u64) < q[1]);
        let d0 = [d[0] as u64, d[1] as u64, d[2] as u64, d[3] as u64];
        let mut dest = d0;
        crate::util::scaling_variant::multiply_add_plain(&plain, &cd, &mut dest);
        let j: usize = kani::any(); kani::assume(j < 2);
        let scaled = (qq * m as u64 + (t + 1) / 2) / t;
        kani::cover!(m > 900);
        assert!(dest[j * 2] == (d0[j * 2] + scaled) % q[j]);
        assert!(dest[j * 2 + 1] == d0[j * 2 + 1]);
        std::mem::forget(cd); std::mem::forget(ctx);
    }

    fn scale_case(ctx: &Arc<HeContext>, q: [u64; 2], t: u64) {
        let cd = ctx.first_context_data().unwrap();
        let qq = q[0] * q[1];
        let m: [u8; 2] = kani::any(); kani::assume((m[0] as u64) < t && (m[1] as u64) < t);
        let short: bool = kani::any();
        let plain = if short { mk_plaintext(1, vec![m[0] as u64], crate::PARMS_ID_ZERO, 1.0) } else { mk_plaintext(2, vec![m[0] as u64, m[1] as u64], crate::PARMS_ID_ZERO, 1.0) };
        let d: [u8; 4] = kani::any();
        kani::assume((d[0] as u64) < q[0] && (d[1] as u64) < q[0] && (d[2] as u64) < q[1] && (d[3] as u64) < q[1]);
        let d0 = [d[0] as u64, d[1] as u64, d[2] as u64, d[3] as u64];
        let sub: bool = kani::any();
        let mut dest = d0;
        if sub { crate::util::scaling_variant::multiply_sub_plain(&plain, &cd, &mut dest); } else { crate::util::scaling_variant::multiply_add_plain(&plain, &cd, &mut dest); }
        let i: usize = kani::any(); let j: usize = kani::any(); kani::assume(i < 2 && j < 2);   // coefficient i, modulus j
        let mi = if short && i == 1 { 0 } else { m[i] as u64 };
        let scaled = (qq * mi + (t + 1) / 2) / t;          // round half up of q*m/t
        let e = if sub { (d0[j * 2 + i] + q[j] - scaled % q[j]) % q[j] } else { (d0[j * 2 + i] + scaled) % q[j] };
        kani::cover!(mi >= (t + 1) / 2 && sub);
        assert!(dest[j * 2 + i] == e);
        std::mem::forget(cd);
    }

    // @harness id=C01 tier=quick unwind=132 timeout=2400 fs=4096
    // @desc multiply_add_plain / multiply_sub_plain at the 64-bit carry corner of the numerator (q mod t)*m + (t+1)/2: the value added to / subtracted from the destination is exactly floor((q*m + floor((t+1)/2)) / t) mod q, for plaintext coefficients on both sides of the point where the low product word plus the rounding term carries into the high word, and at both ends of the plaintext range
    // @bounds BFV N=2, one 60-bit prime q=1152921504606830593, t=1099511626751 (40 bits, q mod t = 1074774017); m in three windows of 256 consecutive values: around floor((2^64-1)/(q mod t)) (carry / no carry), [0,255], [t-256,t-1]; destination residue any value below 256; one-coefficient plaintext
    // @funcs scaling_variant::multiply_add_plain, scaling_variant::multiply_sub_plain, multiply_u64_u64, add_u64, divide_u128_u64_inplace, multiply_u64operand_add_u64_mod
    // @stubs HeContext::get_context_data -> linear search over the literal chain; alloc::sync::Arc::drop_slow -> no-op
    #[kani::proof]
    #[kani::stub(crate::context::HeContext::get_context_data, crate::context::verif_v::get_context_data_stub)]
    #[kani::stub(alloc::sync::Arc::drop_slow, crate::verif_v::arc_drop_slow_noop)]
    fn c01_multiply_add_plain_carry_corner() {
        let ctx = lits::ctx_bfv_n2_q60_t40();
        let cd = ctx.first_context_data().unwrap();
        let q = 1152921504606830593u64; let t = 1099511626751u64;
        let r = cd.coeff_modulus_mod_plain_modulus();
        assert!(r == q % t && cd.plain_upper_half_threshold() == (t + 1) / 2);
        let m0 = u64::MAX / r;                                   // largest m with r*m < 2^64
        assert!(m0 + 128 < t && (r as u128 * m0 as u128) + ((t + 1) / 2) as u128 >= 1u128 << 64);   // the window really straddles the carry
        let w: u8 = kani::any();
        match w { 0 => corner_case(&cd, q, t, m0 - 127), 1 => corner_case(&cd, q, t, 0), _ => corner_case(&cd, q, t, t - 256) }
        std::mem::forget(cd); std::mem::forget(ctx);
    }
    fn corner_case(cd: &crate::context::ContextData, q: u64, t: u64, base: u64) {
        let off: u8 = kani::any(); let d: u8 = kani::any(); let sub: bool = kani::any();
        let m = base + off as u64;
        let plain = mk_plaintext(1, vec![m], crate::PARMS_ID_ZERO, 1.0);
        let mut dest = [d as u64, 7];
        if sub { crate::util::scaling_variant::multiply_sub_plain(&plain, cd, &mut dest); } else { crate::util::scaling_variant::multiply_add_plain(&plain, cd, &mut dest); }
        let scaled = ((q as u128 * m as u128 + ((t + 1) / 2) as u128) / t as u128 % q as u128) as u64;
        let e = if sub { (d as u64 + q - scaled) % q } else { (d as u64 + scaled) % q };
        kani::cover!(off == 127); kani::cover!(off == 128);
        assert!(dest[0] == e && dest[1] == 7);
    }

    // @harness id=C07 tier=quick unwind=10 timeout=2400 fs=4096
    // @desc invariant_noise_budget(ct) equals the definition evaluated exactly: budget = max(0, bits(q) - bits(max_i |t*phase_i mod q|_centered) - 1) for the phase under the secret key, for EVERY ciphertext/key (also those with zero budget)
    // @bounds BFV N=2, q={97}, t=3; c1 = 5 + 91 X (concrete), every c0 (hence every phase); secret key s = 1 - X; all four ciphertext residues symbolic: thorough harness c07_noise_budget_is_definition
    // @funcs Decryptor::invariant_noise_budget, Decryptor::dot_product_ct_sk_array, poly_infty_norm, RNSBase::compose_array, half_round_up_uint, get_significant_bit_count_uint
    // @stubs HeContext::get_context_data -> linear search over the literal chain; alloc::sync::Arc::drop_slow -> no-op
    #[kani::proof]
    #[kani::stub(crate::context::HeContext::get_context_data, crate::context::verif_v::get_context_data_stub)]
    #[kani::stub(alloc::sync::Arc::drop_slow, crate::verif_v::arc_drop_slow_noop)]
    fn c07_noise_budget_is_definition_fixed_c1() {
        let ctx = lits::ctx_bfv_n2_1p();
        let pid = *ctx.first_parms_id();
        let q = 97u64; let t = 3u64;
        let s = [1u64, q - 1];                                   // s = 1 - X (concrete: a symbolic key does not finish)
        let mut s_ntt = s;
        { let cd = ctx.key_context_data().unwrap(); polymod::ntt_p(&mut s_ntt, 2, cd.small_ntt_tables()); std::mem::forget(cd); }
        let dec = mk_decryptor(ctx.clone(), s_ntt.to_vec());
        let c: [u8; 2] = kani::any(); kani::assume(c[0] < 97 && c[1] < 97);
        let cv = [c[0] as u64, c[1] as u64, 5, 91];                 // c1 = 5 + 91 X concrete: the key product is concrete, every phase is still reached through c0
        let ct = mk_ciphertext(2, 1, 2, cv.to_vec(), pid, 1.0, false, 1);
        let b = dec.invariant_noise_budget(&ct);
        let ph0 = (cv[0] + cv[2] * s[0] + (q * q - cv[3] * s[1])) % q;
        let ph1 = (cv[1] + cv[2] * s[1] + cv[3] * s[0]) % q;
        let cen = |x: u64| { let y = (t * x) % q; if y >= (q + 1) / 2 { q - y } else { y } };
        let norm = if cen(ph0) > cen(ph1) { cen(ph0) } else { cen(ph1) };
        let bits = |x: u64| (64 - x.leading_zeros()) as isize;
        let e = bits(q) - bits(norm) - 1;
        kani::cover!(e > 3);
        kani::cover!(e == 0);                                    // zero budget (norm has bits(q)-1 bits); e < 0 cannot occur since the centred norm is below q/2
        assert!(b as isize == if e < 0 { 0 } else { e });
        std::mem::forget(dec); std::mem::forget(ctx);
    }

    // @harness id=C07 tier=thorough unwind=10 timeout=3600 fs=4096
    // @desc invariant_noise_budget(ct) equals the definition evaluated exactly: budget = max(0, bits(q) - bits(max_i |t*phase_i mod q|_centered) - 1) for the phase under the secret key, for EVERY ciphertext/key (also those with zero budget)
    // @bounds BFV N=2, q={97}, t=3; all ciphertext residues; secret key s = 1 - X
    // @funcs Decryptor::invariant_noise_budget, Decryptor::dot_product_ct_sk_array, poly_infty_norm, RNSBase::compose_array, half_round_up_uint, get_significant_bit_count_uint
    // @stubs HeContext::get_context_data -> linear search over the literal chain; alloc::sync::Arc::drop_slow -> no-op
    #[kani::proof]
    #[kani::stub(crate::context::HeContext::get_context_data, crate::context::verif_v::get_context_data_stub)]
    #[kani::stub(alloc::sync::Arc::drop_slow, crate::verif_v::arc_drop_slow_noop)]
    fn c07_noise_budget_is_definition() {
        let ctx = lits::ctx_bfv_n2_1p();
        let pid = *ctx.first_parms_id();
        let q = 97u64; let t = 3u64;
        let s = [1u64, q - 1];                                   // s = 1 - X (concrete: a symbolic key does not finish)
        let mut s_ntt = s;
        { let cd = ctx.key_context_data().unwrap(); polymod::ntt_p(&mut s_ntt, 2, cd.small_ntt_tables()); std::mem::forget(cd); }
        let dec = mk_decryptor(ctx.clone(), s_ntt.to_vec());
        let c: [u8; 4] = kani::any(); kani::assume(c[0] < 97 && c[1] < 97 && c[2] < 97 && c[3] < 97);
        let cv = [c[0] as u64, c[1] as u64, c[2] as u64, c[3] as u64];
        let ct = mk_ciphertext(2, 1, 2, cv.to_vec(), pid, 1.0, false, 1);
        let b = dec.invariant_noise_budget(&ct);
        let ph0 = (cv[0] + cv[2] * s[0] + (q * q - cv[3] * s[1])) % q;
        let ph1 = (cv[1] + cv[2] * s[1] + cv[3] * s[0]) % q;
        let cen = |x: u64| { let y = (t * x) % q; if y >= (q + 1) / 2 { q - y } else { y } };
        let norm = if cen(ph0) > cen(ph1) { cen(ph0) } else { cen(ph1) };
        let bits = |x: u64| (64 - x.leading_zeros()) as isize;
        let e = bits(q) - bits(norm) - 1;
        kani::cover!(e > 3);
        kani::cover!(e == 0);                                    // zero budget (norm has bits(q)-1 bits); e < 0 cannot occur since the centred norm is below q/2
        assert!(b as isize == if e < 0 { 0 } else { e });
        std::mem::forget(dec); std::mem::forget(ctx);
    }

    // @harness id=C07 tier=quick unwind=10 timeout=2400 fs=4096
    // @desc invariant_noise_budget of a ciphertext BELOW the first level equals the definition evaluated with the modulus of the ciphertext's OWN level (bit count of q_level, not of the first level's modulus), for every ciphertext at that level
    // @bounds BFV N=2, chain {97,113,193}: key level 3 primes, first data level {97,113}, ciphertext at the last level {97}; t=17; c1 = 0 and every c0 (every phase); secret key s = 1 - X
    // @funcs Decryptor::invariant_noise_budget, Decryptor::dot_product_ct_sk_array, poly_infty_norm, RNSBase::compose_array, half_round_up_uint, get_significant_bit_count_uint
    // @stubs HeContext::get_context_data -> linear search over the literal chain; alloc::sync::Arc::drop_slow -> no-op
    #[kani::proof]
    #[kani::stub(crate::context::HeContext::get_context_data, crate::context::verif_v::get_context_data_stub)]
    #[kani::stub(alloc::sync::Arc::drop_slow, crate::verif_v::arc_drop_slow_noop)]
    fn c07_noise_budget_at_lower_level() {
        let ctx = lits::ctx_bfv_n2();
        let last = *ctx.last_parms_id();
        let q = 97u64; let t = 17u64;
        let qs = [97u64, 113, 193];
        let mut sk = [0u64; 6];
        { let kcd = ctx.key_context_data().unwrap(); let tabs = kcd.small_ntt_tables();
          let mut m = 0; while m < 3 { let mut s = [1u64, qs[m] - 1]; tabs[m].ntt_negacyclic_harvey(&mut s); sk[2 * m] = s[0]; sk[2 * m + 1] = s[1]; m += 1; }
          std::mem::forget(kcd); }
        let dec = mk_decryptor(ctx.clone(), sk.to_vec());
        let c: [u8; 2] = kani::any(); kani::assume(c[0] < 97 && c[1] < 97);
        let cv = [c[0] as u64, c[1] as u64, 0, 0];                   // c1 = 0: the phase is c0 itself (the product with the key is decided at the first level)
        let ct = mk_ciphertext(2, 1, 2, cv.to_vec(), last, 1.0, false, 1);
        let b = dec.invariant_noise_budget(&ct);
        let ph0 = (cv[0] + cv[2] + cv[3]) % q;                       // (c1_0 + c1_1 X)(1 - X) = (c1_0 + c1_1) + (c1_1 - c1_0) X
        let ph1 = (cv[1] + cv[3] + q - cv[2]) % q;
        let cen = |x: u64| { let y = (t * x) % q; if y >= (q + 1) / 2 { q - y } else { y } };
        let norm = if cen(ph0) > cen(ph1) { cen(ph0) } else { cen(ph1) };
        let bits = |x: u64| (64 - x.leading_zeros()) as isize;
        let e = bits(q) - bits(norm) - 1;
        kani::cover!(e > 3);
        kani::cover!(e == 0);
        assert!(b as isize == if e < 0 { 0 } else { e });
        std::mem::forget(dec); std::mem::forget(ctx);
    }

    // @harness id=C17 tier=deep unwind=10 timeout=3000 fs=4096
    // @desc the lazily grown secret-key-power cache of a shared Decryptor never shrinks and never changes results: a size-2 decryption gives the same plaintext before and after a size-3 decryption grew the cache, and the cache keeps its larger length (the sequential history small; large; small on one shared object)
    // @bounds BFV N=2, q={97}, t=3; all ciphertext residues; secret key s = 1 - X (concrete); one sequential history. Real thread interleavings are outside Kani's model (no threads): only a sequential history is decided here
    // @funcs Decryptor::decrypt, Decryptor::compute_secret_key_array, Decryptor::dot_product_ct_sk_array
    // @stubs HeContext::get_context_data -> linear search over the literal chain; alloc::sync::Arc::drop_slow -> no-op
    #[kani::proof]
    #[kani::stub(crate::context::HeContext::get_context_data, crate::context::verif_v::get_context_data_stub)]
    #[kani::stub(alloc::sync::Arc::drop_slow, crate::verif_v::arc_drop_slow_noop)]
    fn c17_key_power_cache_sequential_orders() {
        let ctx = lits::ctx_bfv_n2_1p();
        let pid = *ctx.first_parms_id();
        let q = 97u64;
        let mut s_ntt = [1u64, q - 1];                                   // s = 1 - X
        { let cd = ctx.key_context_data().unwrap(); polymod::ntt_p(&mut s_ntt, 2, cd.small_ntt_tables()); std::mem::forget(cd); }
        let shared = mk_decryptor(ctx.clone(), s_ntt.to_vec());
        let c: [u8; 6] = kani::any(); kani::assume(c[0] < 97 && c[1] < 97 && c[2] < 97 && c[3] < 97 && c[4] < 97 && c[5] < 97);
        let ct3 = mk_ciphertext(3, 1, 2, vec![c[0] as u64, c[1] as u64, c[2] as u64, c[3] as u64, c[4] as u64, c[5] as u64], pid, 1.0, false, 1);
        let ct2 = mk_ciphertext(2, 1, 2, vec![c[0] as u64, c[1] as u64, c[2] as u64, c[3] as u64], pid, 1.0, false, 1);
        let before = shared.decrypt_new(&ct2);                           // cache holds 1 power
        assert!(shared.secret_key_array.read().unwrap().len() == 2);
        let p3 = shared.decrypt_new(&ct3);                               // grows the cache to 2 powers
        assert!(shared.secret_key_array.read().unwrap().len() == 4);
        let after = shared.decrypt_new(&ct2);                            // a smaller request after the larger one
        kani::cover!(before.coeff_count() == 2);
        assert!(shared.secret_key_array.read().unwrap().len() == 4);      // never shrunk
        assert!(after.coeff_count() == before.coeff_count() && after.data()[0] == before.data()[0] && (after.coeff_count() < 2 || after.data()[1] == before.data()[1]));
        assert!(p3.coeff_count() >= 1);
        std::mem::forget(shared); std::mem::forget(ctx);
    }

    #[cfg(test)] include!("/verif/.build/playback/encryptor_v.rs");
}
