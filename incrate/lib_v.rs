//! Verification support compiled into heathcliff (crate root) as child module `verif_v`.
//!
//! * `Lit`: prints a value as a Rust *expression* that rebuilds it through the `mk_*` constructor
//!   functions that every hooked module exposes (struct fields are private to their modules).
//!   The native generator (`cargo test --lib verif_gen_` under `--cfg heathcliff_verif`) runs the REAL
//!   constructors of the library and writes those expressions to /verif/.build/gen/*.rs; the Kani
//!   harnesses `include!` them, so symbolic execution starts from exactly the state the real
//!   constructors produce at the current commit.
#![allow(unused, dead_code, non_snake_case)]

pub(crate) trait Lit { fn lit(&self) -> String; }

macro_rules! lit_prim { ($($t:ty),*) => { $(impl Lit for $t { fn lit(&self) -> String { format!("{}{}", self, stringify!($t)) } })* } }
lit_prim!(u8, u16, u32, u64, u128, usize, i32, i64, isize);
impl Lit for bool { fn lit(&self) -> String { format!("{}", self) } }
impl Lit for f64 { fn lit(&self) -> String { format!("f64::from_bits(0x{:016x}u64)", self.to_bits()) } }
impl<T: Lit> Lit for Vec<T> {
    fn lit(&self) -> String {
        if self.is_empty() { return "Vec::new()".to_string(); }
        format!("vec![{}]", self.iter().map(|x| x.lit()).collect::<Vec<_>>().join(", "))
    }
}
impl<T: Lit, const N: usize> Lit for [T; N] {
    fn lit(&self) -> String { format!("[{}]", self.iter().map(|x| x.lit()).collect::<Vec<_>>().join(", ")) }
}
impl<T: Lit> Lit for Option<T> {
    fn lit(&self) -> String { match self { None => "None".to_string(), Some(x) => format!("Some({})", x.lit()) } }
}
impl<T: Lit> Lit for std::sync::RwLock<T> {
    fn lit(&self) -> String { format!("std::sync::RwLock::new({})", self.read().unwrap().lit()) }
}
impl<A: Lit, B: Lit> Lit for (A, B) {
    fn lit(&self) -> String { format!("({}, {})", self.0.lit(), self.1.lit()) }
}

/// Declares, inside the `verif_v` child of the module that owns struct `$name`, a constructor
/// `$mk(field...) -> $name` and the matching `Lit` printer that emits a call to it.
macro_rules! verif_struct {
    ($name:ident, $mkpath:literal, $mk:ident, { $($f:ident : $ft:ty),* $(,)? }) => {
        #[allow(clippy::too_many_arguments)]
        pub(crate) fn $mk($($f: $ft),*) -> $name { $name { $($f),* } }
        impl crate::verif_v::Lit for $name {
            fn lit(&self) -> String {
                let parts: Vec<String> = vec![$(crate::verif_v::Lit::lit(&self.$f)),*];
                format!("{}(\n{})", $mkpath, parts.join(",\n"))
            }
        }
    }
}
pub(crate) use verif_struct;

/// Where generated literal tables live (regenerated from /repo on every check run).
pub(crate) const GEN_DIR: &str = "/verif/.build/gen";

#[cfg(not(kani))]
pub(crate) fn write_gen(name: &str, body: &str) {
    std::fs::create_dir_all(GEN_DIR).unwrap();
    let path = format!("{}/{}", GEN_DIR, name);
    let tmp = format!("{}.tmp{}", path, std::process::id());
    std::fs::write(&tmp, body).unwrap();
    std::fs::rename(&tmp, &path).unwrap();
}

/// Generated literal tables (functions returning fully built library objects).
#[cfg(kani)]
pub(crate) mod lits {
    include!("/verif/.build/gen/ctx.rs");
    include!("/verif/.build/gen/moduli.rs");
    include!("/verif/.build/gen/ntt.rs");
    include!("/verif/.build/gen/rns.rs");
}

/// Cheap deterministic stand-in for `format!` in harnesses (error-path message building is not
/// the subject of any property).
#[cfg(kani)]
pub(crate) fn fmt_stub(_args: std::fmt::Arguments<'_>) -> String { String::new() }

/// `-Z stubbing` replacement for `alloc::sync::Arc::drop_slow`: memory reclamation is not part of any
/// property; CBMC cannot see the reference count of an `ArcInner<ContextData>` as a constant and would
/// otherwise walk the whole recursive drop glue at every `Arc` drop (DESIGN.md R1).
#[cfg(kani)]
pub(crate) unsafe fn arc_drop_slow_noop<T: ?Sized, A: std::alloc::Allocator>(_this: &mut std::sync::Arc<T, A>) {}
