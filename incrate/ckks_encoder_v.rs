//! Verification harnesses compiled into heathcliff::ckks_encoder as child module `verif_v`.
#![allow(unused, dead_code, non_snake_case)]
