//! Verification harnesses compiled into heathcliff::ckks_encoder as child module `verif_v`.
#![allow(unused, dead_code, non_snake_case)]
use super::*;

/// Encoder object without the floating-point root tables (CKKSEncoder::new computes them with sin/cos, which CBMC
/// does not model bit-exactly). The integer entry point does not read them.
pub(crate) fn mk_ckks_encoder_no_tables(context: Arc<HeContext>, slots: usize) -> CKKSEncoder {
    CKKSEncoder { context, slots, root_powers: vec![], inv_root_powers: vec![], matrix_reps_index_map: vec![], fft_handler: FFTHandler::new(&ComplexArith {}) }
}

#[cfg(kani)]
mod proofs {
    use super::*;
    use crate::verif_v::lits;

    // @harness id=C12 tier=quick unwind=8 timeout=1800 fs=4096 kf=ckks_i64_negative_wrap
    // @desc CKKS integer encoding: for every i64 value that passes the size check, every RNS component of the plaintext holds (value mod q_j) -- the mathematical residue, also for NEGATIVE values whose magnitude exceeds the prime -- identically in all N coefficient slots of that component, with scale 1 and the requested level
    // @bounds CKKS N=2, q={97,113} (total 14 bits: accepted magnitudes below 2^11, i.e. well above both primes); value symbolic in -2047..2047; slot symbolic
    // @funcs CKKSEncoder::encode_internal_i64_single, Modulus::reduce
    // @stubs HeContext::get_context_data -> linear search over the literal chain; alloc::sync::Arc::drop_slow -> no-op
    #[kani::proof]
    #[kani::stub(crate::context::HeContext::get_context_data, crate::context::verif_v::get_context_data_stub)]
    #[kani::stub(alloc::sync::Arc::drop_slow, crate::verif_v::arc_drop_slow_noop)]
    fn c12_encode_i64_residues() {
        let ctx = lits::ctx_ckks_n2_2p1();
        let enc = mk_ckks_encoder_no_tables(ctx.clone(), 1);
        let pid = *ctx.first_parms_id();
        let v: i16 = kani::any(); kani::assume(v > -2048 && v < 2048);
        let mut p = Plaintext::new();
        enc.encode_internal_i64_single(v as i64, &pid, &mut p);
        let j: usize = kani::any(); let k: usize = kani::any(); kani::assume(j < 2 && k < 2);
        let q: i32 = if j == 0 { 97 } else { 113 };
        let e = (((v as i32) % q) + q) % q;
        kani::cover!(v < -200);
        assert!(p.data().len() == 4 && p.coeff_count() == 4);
        assert!(p.data()[j * 2 + k] == e as u64);
        assert!(*p.parms_id() == pid && p.scale() == 1.0);
        std::mem::forget(enc); std::mem::forget(ctx);
    }

    // @harness id=C12 tier=quick unwind=8 timeout=1800 fs=4096
    // @desc integer encoding refuses (panics) values whose magnitude does not fit the coefficient modulus, a parms id that is not in the context, and a non-CKKS context
    // @bounds CKKS N=2 q={97,113}: |value| >= 2^12; foreign parms id; BFV context
    // @funcs CKKSEncoder::encode_internal_i64_single
    // @stubs HeContext::get_context_data -> linear search over the literal chain; alloc::sync::Arc::drop_slow -> no-op
    // @expect panic:Invalid argument
    #[kani::proof]
    #[kani::stub(crate::context::HeContext::get_context_data, crate::context::verif_v::get_context_data_stub)]
    #[kani::stub(alloc::sync::Arc::drop_slow, crate::verif_v::arc_drop_slow_noop)]
    fn c12_encode_i64_refusals() {
        let c: u8 = kani::any();
        let mut p = Plaintext::new();
        match c {
            0 => { let ctx = lits::ctx_ckks_n2_2p1(); let enc = mk_ckks_encoder_no_tables(ctx.clone(), 1); let pid = *ctx.first_parms_id();
                   let v: i64 = kani::any(); kani::assume(v >= 4096 || (v <= -4096 && v > i64::MIN)); enc.encode_internal_i64_single(v, &pid, &mut p); }
            1 => { let ctx = lits::ctx_ckks_n2_2p1(); let enc = mk_ckks_encoder_no_tables(ctx.clone(), 1); let mut pid = *ctx.first_parms_id(); pid[1] ^= 5;
                   enc.encode_internal_i64_single(3, &pid, &mut p); }
            _ => { let ctx = lits::ctx_bfv_n2_1p(); let enc = mk_ckks_encoder_no_tables(ctx.clone(), 1); let pid = *ctx.first_parms_id();
                   enc.encode_internal_i64_single(3, &pid, &mut p); }
        }
        kani::cover!(true, "AFTER: refused encoding returned");
    }

    // NOTE (measured): a harness for encode_internal_f64_polynomial with CONCRETE values (+-3.0, scale 4.0) and a symbolic stale
    // destination ran out of memory at 12 GB (208 s) and at 40 GB (515 s) during propositional reduction: the function goes through
    // f64::powi(64), log2, ceil, round and `%` on doubles, which CBMC bit-blasts through its libm models. The floating-point entry
    // points of the CKKS encoder are therefore outside the reach of this technique here (see DESIGN.md, C12).

    #[cfg(test)] include!("/verif/.build/playback/ckks_encoder_v.rs");
}
