//! Verification harnesses compiled into heathcliff::util/rlwe as child module `verif_v`.
#![allow(unused, dead_code, non_snake_case)]
use super::*;

#[cfg(kani)]
mod proofs {
    use super::*;
    use crate::verif_v::lits;
    use rand::RngCore;

    /// The randomness source as a nondeterministic stub: every word / byte it returns is an arbitrary value (the documented
    /// contract of an RNG); at most `budget` words are drawn (paths that would draw more are outside the bound: the rejection
    /// loops of rand's uniform integer sampling are unbounded in principle).
    struct SymRng { calls: usize, budget: usize }
    impl RngCore for SymRng {
        fn next_u32(&mut self) -> u32 { self.calls += 1; kani::assume(self.calls <= self.budget); kani::any() }
        fn next_u64(&mut self) -> u64 { self.calls += 1; kani::assume(self.calls <= self.budget); kani::any() }
        fn fill_bytes(&mut self, dest: &mut [u8]) { let mut i = 0; while i < dest.len() { dest[i] = kani::any(); i += 1; } }
        fn try_fill_bytes(&mut self, dest: &mut [u8]) -> Result<(), rand::Error> { self.fill_bytes(dest); Ok(()) }
    }

    fn signed_of(r: u64, q: u64) -> i64 { if r > q / 2 { r as i64 - q as i64 } else { r as i64 } }

    // @harness id=C16 tier=quick unwind=10 timeout=1800 fs=4096
    // @desc sampled polynomials are well-formed for EVERY output of the randomness source: ternary and error (centred binomial) samples carry the same small signed value in every RNS component (ternary in {-1,0,1}, |error| <= 21), uniform samples lie strictly below each modulus
    // @bounds N=2, coefficient moduli {97,113}; randomness source = arbitrary words/bytes, at most 6 word draws per call (rejection loops of rand's integer sampling beyond that are outside the bound); sampler chosen symbolically
    // @funcs sample::ternary, sample::centered_binomial, sample::uniform, rand::distributions::Uniform::sample (as compiled), hamming_weight
    // @stubs the RNG is a nondeterministic stub (arbitrary values); HeContext::get_context_data -> linear search over the literal chain; alloc::sync::Arc::drop_slow -> no-op
    #[kani::proof]
    #[kani::stub(crate::context::HeContext::get_context_data, crate::context::verif_v::get_context_data_stub)]
    #[kani::stub(alloc::sync::Arc::drop_slow, crate::verif_v::arc_drop_slow_noop)]
    fn c16_samplers_wellformed() {
        let ctx = lits::ctx_bfv_n2_2p1();
        let cd = ctx.first_context_data().unwrap();
        let parms = cd.parms();
        let mut rng = SymRng { calls: 0, budget: 6 };
        let mut d = [0u64; 4];
        let which: u8 = kani::any();
        let i: usize = kani::any(); kani::assume(i < 2);
        match which {
            0 => { sample::ternary(&mut rng, parms, &mut d);
                   let a = signed_of(d[i], 97); let b = signed_of(d[2 + i], 113);
                   kani::cover!(a == -1);
                   assert!(d[i] < 97 && d[2 + i] < 113 && a == b && a >= -1 && a <= 1); }
            1 => { sample::centered_binomial(&mut rng, parms, &mut d);
                   let a = signed_of(d[i], 97); let b = signed_of(d[2 + i], 113);
                   kani::cover!(a == -21); kani::cover!(a == 21);
                   assert!(d[i] < 97 && d[2 + i] < 113 && a == b && a >= -21 && a <= 21); }
            _ => { sample::uniform(&mut rng, parms, &mut d);
                   kani::cover!(d[i] == 96);
                   assert!(d[i] < 97 && d[2 + i] < 113); }
        }
        std::mem::forget(cd); std::mem::forget(ctx);
    }

    /// generator whose first 24 buffered bytes are arbitrary and the rest of the 4096-byte block is zero (a zero word is always
    /// accepted by rand's rejection sampling, so the rejection loops are bounded by 7 draws: longer rejection runs are outside the bound)
    fn sym_blake() -> crate::util::BlakeRNG {
        let w: [u8; 24] = kani::any();
        let mut b = [0u8; crate::util::verif_v::random_generator::BUF];
        b[0] = w[0]; b[1] = w[1]; b[2] = w[2]; b[3] = w[3]; b[4] = w[4]; b[5] = w[5]; b[6] = w[6]; b[7] = w[7]; b[8] = w[8]; b[9] = w[9]; b[10] = w[10]; b[11] = w[11];
        b[12] = w[12]; b[13] = w[13]; b[14] = w[14]; b[15] = w[15]; b[16] = w[16]; b[17] = w[17]; b[18] = w[18]; b[19] = w[19]; b[20] = w[20]; b[21] = w[21]; b[22] = w[22]; b[23] = w[23];
        crate::util::verif_v::random_generator::mk_blake_rng(b, crate::util::PRNGSeed([0u8; 64]), 1, 0)
    }
    fn create_rng_stub(_this: &crate::context::HeContext) -> crate::util::BlakeRNG { sym_blake() }

    // @harness id=C01 tier=quick unwind=10 timeout=3000 fs=4096 mem=24 replays=12
    // @desc public-key encryption of zero BELOW the key level takes each public-key polynomial at the KEY level's stride: with a public key whose second polynomial is zero, the second component of the fresh ciphertext is exactly the sampled error -- every coefficient small (|e| <= 21) -- whatever the first public-key polynomial holds in its other RNS components, for every output of the randomness source; size, level and metadata as requested
    // @bounds BFV N=2, chain {97,113,193}: key level 3 primes, encryption at the LAST level {97}; public key (pk0 arbitrary canonical residues in all three components, pk1 = 0); coefficient-form output; randomness: first 24 bytes of both generators arbitrary (covers all draws of one encryption when at most 4 words are rejected)
    // @funcs encrypt_zero::asymmetric_with_u_prng, sample::ternary, sample::centered_binomial, polysmallmod::{ntt_p,intt_p,dyadic_product_p,add_inplace_p}, Ciphertext::resize, PublicKey::as_ciphertext
    // @stubs HeContext::create_random_generator -> generator with arbitrary buffered bytes (entropy source outside the claim); HeContext::get_context_data -> linear search over the literal chain; alloc::sync::Arc::drop_slow -> no-op
    #[kani::proof]
    #[kani::stub(crate::context::HeContext::get_context_data, crate::context::verif_v::get_context_data_stub)]
    #[kani::stub(alloc::sync::Arc::drop_slow, crate::verif_v::arc_drop_slow_noop)]
    #[kani::stub(crate::context::HeContext::create_random_generator, create_rng_stub)]
    fn c01_pk_encrypt_zero_lower_level_stride() {
        use crate::key::verif_v::mk_public_key; use crate::text::verif_v::mk_ciphertext;
        let ctx = lits::ctx_bfv_n2();
        let key_pid = *ctx.key_parms_id(); let last = *ctx.last_parms_id();
        let r: [u8; 6] = kani::any();
        kani::assume(r[0] < 97 && r[1] < 97 && r[2] < 113 && r[3] < 113 && r[4] < 193 && r[5] < 193);
        let mut d = vec![0u64; 12]; let mut i = 0; while i < 6 { d[i] = r[i] as u64; i += 1; }
        let pk = mk_public_key(mk_ciphertext(2, 3, 2, d, key_pid, 1.0, true, 1));
        let mut u_prng = sym_blake();
        let mut dest = crate::Ciphertext::new();
        encrypt_zero::asymmetric_with_u_prng(&pk, &ctx, &last, false, &mut u_prng, &mut dest);
        assert!(dest.size() == 2 && dest.data().len() == 4 && *dest.parms_id() == last && !dest.is_ntt_form() && dest.scale() == 1.0 && dest.correction_factor() == 1);
        let k: usize = kani::any(); kani::assume(k < 2);
        let e = dest.data()[2 + k];
        kani::cover!(r[2] != 0 && e != 0);
        assert!(e <= 21 || (e >= 97 - 21 && e < 97));
        std::mem::forget(pk); std::mem::forget(ctx);
    }

    fn create_rng_zero_stub(_this: &crate::context::HeContext) -> crate::util::BlakeRNG {
        crate::util::verif_v::random_generator::mk_blake_rng([0u8; crate::util::verif_v::random_generator::BUF], crate::util::PRNGSeed([0u8; 64]), 1, 0)
    }

    // @harness id=C01 tier=quick unwind=10 timeout=3000 fs=4096 mem=24 replays=12
    // @desc as c01_pk_encrypt_zero_lower_level_stride with the error generator's bytes fixed to zero in the model (sampled error 0): the second component must then stay within the error bound for every mask u -- a counterexample of this harness has a large key*u product and therefore reproduces natively whatever error the real entropy source adds (the replay is repeated up to 12 times)
    // @bounds BFV N=2, chain {97,113,193}: key level 3 primes, encryption at the LAST level {97}; public key (pk0 arbitrary canonical residues in all three components, pk1 = 0); coefficient-form output; randomness: first 24 bytes of the mask generator arbitrary, error generator all zero (covers all draws of one encryption when at most 4 words are rejected)
    // @funcs encrypt_zero::asymmetric_with_u_prng, sample::ternary, sample::centered_binomial, polysmallmod::{ntt_p,intt_p,dyadic_product_p,add_inplace_p}, Ciphertext::resize, PublicKey::as_ciphertext
    // @stubs HeContext::create_random_generator -> generator whose buffered bytes are all zero (sampled error 0); HeContext::get_context_data -> linear search over the literal chain; alloc::sync::Arc::drop_slow -> no-op
    #[kani::proof]
    #[kani::stub(crate::context::HeContext::get_context_data, crate::context::verif_v::get_context_data_stub)]
    #[kani::stub(alloc::sync::Arc::drop_slow, crate::verif_v::arc_drop_slow_noop)]
    #[kani::stub(crate::context::HeContext::create_random_generator, create_rng_zero_stub)]
    fn c01_pk_encrypt_zero_lower_level_stride_zero_noise_source() {
        use crate::key::verif_v::mk_public_key; use crate::text::verif_v::mk_ciphertext;
        let ctx = lits::ctx_bfv_n2();
        let key_pid = *ctx.key_parms_id(); let last = *ctx.last_parms_id();
        let r: [u8; 6] = kani::any();
        kani::assume(r[0] < 97 && r[1] < 97 && r[2] < 113 && r[3] < 113 && r[4] < 193 && r[5] < 193);
        let mut d = vec![0u64; 12]; let mut i = 0; while i < 6 { d[i] = r[i] as u64; i += 1; }
        let pk = mk_public_key(mk_ciphertext(2, 3, 2, d, key_pid, 1.0, true, 1));
        let mut u_prng = sym_blake();
        let mut dest = crate::Ciphertext::new();
        encrypt_zero::asymmetric_with_u_prng(&pk, &ctx, &last, false, &mut u_prng, &mut dest);
        assert!(dest.size() == 2 && dest.data().len() == 4 && *dest.parms_id() == last && !dest.is_ntt_form() && dest.scale() == 1.0 && dest.correction_factor() == 1);
        let k: usize = kani::any(); kani::assume(k < 2);
        let e = dest.data()[2 + k];
        kani::cover!(r[2] != 0);
        assert!(e <= 21 || (e >= 97 - 21 && e < 97));
        std::mem::forget(pk); std::mem::forget(ctx);
    }

    #[cfg(test)] include!("/verif/.build/playback/util_rlwe_v.rs");
}
