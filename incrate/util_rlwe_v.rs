//! Verification harnesses compiled into heathcliff::util/rlwe as child module `verif_v`.
#![allow(unused, dead_code, non_snake_case)]
use super::*;

#[cfg(kani)]
mod proofs {
    use super::*;
    use crate::verif_v::lits;
    use rand::RngCore;

    /// The randomness source as a nondeterministic stub: every word / byte it returns is an arbitrary value (the documented
    /// contract of an RNG); at most `budget` words are drawn (paths that would draw more are outside the bound: the rejection
    /// loops of rand's uniform integer sampling are unbounded in principle).
    struct SymRng { calls: usize, budget: usize }
    impl RngCore for SymRng {
        fn next_u32(&mut self) -> u32 { self.calls += 1; kani::assume(self.calls <= self.budget); kani::any() }
        fn next_u64(&mut self) -> u64 { self.calls += 1; kani::assume(self.calls <= self.budget); kani::any() }
        fn fill_bytes(&mut self, dest: &mut [u8]) { let mut i = 0; while i < dest.len() { dest[i] = kani::any(); i += 1; } }
        fn try_fill_bytes(&mut self, dest: &mut [u8]) -> Result<(), rand::Error> { self.fill_bytes(dest); Ok(()) }
    }

    fn signed_of(r: u64, q: u64) -> i64 { if r > q / 2 { r as i64 - q as i64 } else { r as i64 } }

    // @harness id=C16 tier=quick unwind=10 timeout=1800 fs=4096
    // @desc sampled polynomials are well-formed for EVERY output of the randomness source: ternary and error (centred binomial) samples carry the same small signed value in every RNS component (ternary in {-1,0,1}, |error| <= 21), uniform samples lie strictly below each modulus
    // @bounds N=2, coefficient moduli {97,113}; randomness source = arbitrary words/bytes, at most 6 word draws per call (rejection loops of rand's integer sampling beyond that are outside the bound); sampler chosen symbolically
    // @funcs sample::ternary, sample::centered_binomial, sample::uniform, rand::distributions::Uniform::sample (as compiled), hamming_weight
    // @stubs the RNG is a nondeterministic stub (arbitrary values); HeContext::get_context_data -> linear search over the literal chain; alloc::sync::Arc::drop_slow -> no-op
    #[kani::proof]
    #[kani::stub(crate::context::HeContext::get_context_data, crate::context::verif_v::get_context_data_stub)]
    #[kani::stub(alloc::sync::Arc::drop_slow, crate::verif_v::arc_drop_slow_noop)]
    fn c16_samplers_wellformed() {
        let ctx = lits::ctx_bfv_n2_2p1();
        let cd = ctx.first_context_data().unwrap();
        let parms = cd.parms();
        let mut rng = SymRng { calls: 0, budget: 6 };
        let mut d = [0u64; 4];
        let which: u8 = kani::any();
        let i: usize = kani::any(); kani::assume(i < 2);
        match which {
            0 => { sample::ternary(&mut rng, parms, &mut d);
                   let a = signed_of(d[i], 97); let b = signed_of(d[2 + i], 113);
                   kani::cover!(a == -1);
                   assert!(d[i] < 97 && d[2 + i] < 113 && a == b && a >= -1 && a <= 1); }
            1 => { sample::centered_binomial(&mut rng, parms, &mut d);
                   let a = signed_of(d[i], 97); let b = signed_of(d[2 + i], 113);
                   kani::cover!(a == -21); kani::cover!(a == 21);
                   assert!(d[i] < 97 && d[2 + i] < 113 && a == b && a >= -21 && a <= 21); }
            _ => { sample::uniform(&mut rng, parms, &mut d);
                   kani::cover!(d[i] == 96);
                   assert!(d[i] < 97 && d[2 + i] < 113); }
        }
        std::mem::forget(cd); std::mem::forget(ctx);
    }

    #[cfg(test)] include!("/verif/.build/playback/util_rlwe_v.rs");
}
