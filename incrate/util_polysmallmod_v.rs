//! Verification harnesses compiled into heathcliff::util/polysmallmod as child module `verif_v`.
#![allow(unused, dead_code, non_snake_case)]
use super::*;

#[cfg(kani)]
mod proofs {
    use super::*;
    use crate::modulus::verif_v::mk_modulus;
    use crate::util::MultiplyU64ModOperand;

    const Q0: u64 = 13; const Q1: u64 = 17;
    fn moduli() -> [Modulus; 2] { [mk_modulus(Q0, true), mk_modulus(Q1, true)] }
    /// two polynomials (pcount=2) x two moduli x degree 2 = 8 residues, canonical
    fn any_polys() -> [u64; 8] {
        let a: [u8; 8] = kani::any();
        let mut v = [0u64; 8]; let mut i = 0;
        while i < 8 { let q = if (i / 2) % 2 == 0 { Q0 } else { Q1 }; kani::assume((a[i] as u64) < q); v[i] = a[i] as u64; i += 1; }
        v
    }
    fn qi(i: usize) -> u64 { if (i / 2) % 2 == 0 { Q0 } else { Q1 } }

    // @harness id=C02 tier=quick unwind=10 timeout=900
    // @desc coefficient-wise RNS polynomial kernels (add/sub/negate and their _inplace/_p/_ps forms, add/sub/multiply scalar, multiply_operand, dyadic_product and inplace, modulo): every output residue equals the reference residue at the SAME (polynomial, modulus, coefficient) position, and the read-only operands are unchanged
    // @bounds pcount=2, two moduli (13, 17), degree 2: all 8-residue operand pairs; scalar any value below the smaller modulus; one residue position checked symbolically
    // @funcs polysmallmod::{add,sub,negate,add_scalar,sub_scalar,multiply_scalar,multiply_operand,dyadic_product,modulo}{,_p,_ps} and their _inplace forms
    #[kani::proof]
    fn c02_poly_kernels_positionwise() {
        let m = moduli();
        let a = any_polys(); let b = any_polys();
        let i: usize = kani::any(); kani::assume(i < 8);
        let q = qi(i);
        let mut r = [0u64; 8];
        add_ps(&a, &b, 2, 2, &m, &mut r); assert!(r[i] == (a[i] + b[i]) % q);
        sub_ps(&a, &b, 2, 2, &m, &mut r); assert!(r[i] == (a[i] + q - b[i]) % q);
        negate_ps(&a, 2, 2, &m, &mut r); assert!(r[i] == (q - a[i]) % q);
        dyadic_product_ps(&a, &b, 2, 2, &m, &mut r); assert!(r[i] == (a[i] * b[i]) % q);
        kani::cover!(i == 7 && r[i] != 0);
        let mut t = a; add_inplace_ps(&mut t, &b, 2, 2, &m); assert!(t[i] == (a[i] + b[i]) % q);
        let mut t = a; sub_inplace_ps(&mut t, &b, 2, 2, &m); assert!(t[i] == (a[i] + q - b[i]) % q);
        let mut t = a; negate_inplace_ps(&mut t, 2, 2, &m); assert!(t[i] == (q - a[i]) % q);
        let mut t = a; dyadic_product_inplace_ps(&mut t, &b, 2, 2, &m); assert!(t[i] == (a[i] * b[i]) % q);
        let s: u8 = kani::any(); let s = s as u64; kani::assume(s < Q0);
        add_scalar_ps(&a, s, 2, 2, &m, &mut r); assert!(r[i] == (a[i] + s) % q);
        sub_scalar_ps(&a, s, 2, 2, &m, &mut r); assert!(r[i] == (a[i] + q - s) % q);
        multiply_scalar_ps(&a, s, 2, 2, &m, &mut r); assert!(r[i] == (a[i] * s) % q);
        let mut t = a; add_scalar_inplace_ps(&mut t, s, 2, 2, &m); assert!(t[i] == (a[i] + s) % q);
        let mut t = a; sub_scalar_inplace_ps(&mut t, s, 2, 2, &m); assert!(t[i] == (a[i] + q - s) % q);
        let mut t = a; multiply_scalar_inplace_ps(&mut t, s, 2, 2, &m); assert!(t[i] == (a[i] * s) % q);
        // unreduced input through modulo_ps
        let w: [u8; 8] = kani::any();
        let wv = [w[0] as u64, w[1] as u64, w[2] as u64, w[3] as u64, w[4] as u64, w[5] as u64, w[6] as u64, w[7] as u64];
        modulo_ps(&wv, 2, 2, &m, &mut r); assert!(r[i] == wv[i] % q);
    }

    // @harness id=C19 tier=quick unwind=10 timeout=900
    // @desc negacyclic_shift(p, s) = X^s * p in Z_q[X]/(X^N+1) for every shift 0 <= s < 2N: coefficient i lands at (i+s) mod N with sign (-1)^floor((i+s)/N); the _p/_ps forms apply it per modulus and per polynomial at the right offsets
    // @bounds N in {4, 8} single modulus 17 (all coefficient vectors, all shifts); _ps form at pcount=2, moduli (13,17), degree 2
    // @funcs negacyclic_shift, negacyclic_shift_p, negacyclic_shift_ps
    #[kani::proof]
    fn c19_negacyclic_shift() {
        let c: bool = kani::any();
        let m17 = mk_modulus(17, true);
        if c {
            let a: [u8; 8] = kani::any();
            let mut v = [0u64; 8]; let mut k = 0; while k < 8 { kani::assume(a[k] < 17); v[k] = a[k] as u64; k += 1; }
            let s: usize = kani::any(); kani::assume(s < 16);
            let mut r = [0u64; 8];
            negacyclic_shift(&v, s, &m17, &mut r);
            let i: usize = kani::any(); kani::assume(i < 8);
            let e = i + s; let neg = (e / 8) & 1 == 1;
            kani::cover!(neg && v[i] != 0);
            assert!(r[e % 8] == if neg { (17 - v[i]) % 17 } else { v[i] });
        } else {
            let m = moduli();
            let a = any_polys();
            let s: usize = kani::any(); kani::assume(s < 4);
            let mut r = [0u64; 8];
            negacyclic_shift_ps(&a, s, 2, 2, &m, &mut r);
            let i: usize = kani::any(); kani::assume(i < 8);
            let q = qi(i); let base = i - i % 2; let e = i % 2 + s; let neg = (e / 2) & 1 == 1;
            kani::cover!(neg && a[i] != 0 && i >= 6);
            assert!(r[base + e % 2] == if neg { (q - a[i]) % q } else { a[i] });
        }
    }

    // @harness id=C09 tier=quick unwind=4 timeout=1800
    // @desc both copies of the pointwise (dyadic) product return the exact residue (a*b) mod q at a 61-bit modulus that is NOT close to a power of two (where the carries inside the Barrett quotient estimate matter), for operands around a pair at which the Round-1 addition lo(z0*cr1) + hi(z0*cr0) carries into the next word
    // @bounds modulus 0x1b2c3d4e5f607183 (61 bits, const_ratio = floor(2^128/q) from the defining equations); a = 1541096977114576111 + da, b = 1038082207354901899 + db with da < 256, db < 16 (12 symbolic bits: 55 s; 16 bits: 540 s; a 24-bit window did not finish in 15 min; the harness asserts that the Round-1 carry occurs at da = db = 0); full-range equality of the two copies: thorough harness c09_dyadic_siblings_agree_61bit
    // @funcs polysmallmod::dyadic_product, polysmallmod::dyadic_product_inplace
    #[kani::proof]
    fn c09_dyadic_product_carry_corner_61bit() {
        let q = 0x1b2c_3d4e_5f60_7183u64;
        let m = crate::modulus::verif_v::mk_modulus(q, false);
        let (a0, b0) = (1541096977114576111u64, 1038082207354901899u64);
        // the corner is real: at (a0, b0) the low word of z0*cr1 plus the high word of z0*cr0 exceeds 64 bits
        { let z0 = (a0 as u128 * b0 as u128) as u64; let cr = m.const_ratio();
          let lo = (z0 as u128 * cr[1] as u128) as u64; let hi = ((z0 as u128 * cr[0] as u128) >> 64) as u64;
          assert!(lo.checked_add(hi).is_none()); }
        let da: u8 = kani::any(); let db: u8 = kani::any(); kani::assume(db < 16);
        let a = a0 + da as u64; let b = b0 + db as u64;
        let e = ((a as u128 * b as u128) % q as u128) as u64;
        let mut o = [0u64]; dyadic_product(&[a], &[b], &m, &mut o);
        let mut x = [a]; dyadic_product_inplace(&mut x, &[b], &m);
        kani::cover!(da == 0 && db == 0);
        assert!(o[0] == e);
        assert!(x[0] == e);
    }

    // @harness id=C09 tier=deep unwind=4 timeout=7200
    // @desc the two copies of the pointwise (dyadic) product -- dyadic_product and dyadic_product_inplace -- return the SAME canonical residue for every operand pair at a 61-bit modulus (where the Barrett carries matter), and that residue is below the modulus; at the 7-bit modulus both are compared with the arithmetic definition in c02_poly_kernels_positionwise
    // @bounds one position; modulus 2305843009213693669 (61 bits, from the literal family) and 0x1fffffffffe00001; operands any value below the modulus (full 61-bit range, symbolic x symbolic product shared by both copies)
    // @funcs polysmallmod::dyadic_product, polysmallmod::dyadic_product_inplace
    #[kani::proof]
    fn c09_dyadic_siblings_agree_61bit() {
        let big: bool = kani::any();
        let m = if big { crate::modulus::verif_v::mk_modulus(2305843009213693669, true) } else { crate::modulus::verif_v::mk_modulus(0x1fff_ffff_ffe0_0001, true) };
        let a: u64 = kani::any(); let b: u64 = kani::any(); kani::assume(a < m.value() && b < m.value());
        let mut o = [0u64]; dyadic_product(&[a], &[b], &m, &mut o);
        let mut x = [a]; dyadic_product_inplace(&mut x, &[b], &m);
        kani::cover!(a > (1 << 60) && b > (1 << 60));
        assert!(o[0] == x[0]);
    }

    // @harness id=C09 tier=quick unwind=14 timeout=1200
    // @desc the polynomial-array wrappers ntt_ps / intt_ps transform EVERY polynomial of the array (pcount = 3: the offset advances per polynomial), agreeing with the single-component transform applied at each position, and intt_ps inverts ntt_ps
    // @bounds pcount = 3, one modulus (97), degree 2: all 6-residue arrays; table = literal of the real NTTTables::new
    // @funcs polysmallmod::{ntt_ps,intt_ps,ntt_p,intt_p,ntt,intt}
    #[kani::proof]
    fn c09_poly_array_wrappers() {
        use crate::verif_v::lits;
        let tabs = [lits::ntt_n2_q97()];
        let a: [u8; 6] = kani::any();
        let mut v = [0u64; 6]; let mut i = 0;
        while i < 6 { kani::assume(a[i] < 97); v[i] = a[i] as u64; i += 1; }
        let k: usize = kani::any(); kani::assume(k < 3);          // polynomial index
        let mut single = [v[2 * k], v[2 * k + 1]];
        tabs[0].ntt_negacyclic_harvey(&mut single);
        let mut all = v; ntt_ps(&mut all, 3, 2, &tabs);
        kani::cover!(k == 2 && single[0] != v[4]);
        assert!(all[2 * k] == single[0] && all[2 * k + 1] == single[1]);
        let mut back = all; intt_ps(&mut back, 3, 2, &tabs);
        assert!(back[2 * k] == v[2 * k] && back[2 * k + 1] == v[2 * k + 1]);
    }

    #[cfg(test)] include!("/verif/.build/playback/util_polysmallmod_v.rs");
}
