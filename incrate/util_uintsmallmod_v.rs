//! Verification harnesses compiled into heathcliff::util::uintsmallmod as child module `verif_v`.
//! C08: word-level modular primitives against `%` in the narrowest integer type that holds the spec.
#![allow(unused, dead_code, non_snake_case)]
use super::*;
use crate::modulus::verif_v::mk_modulus;
use crate::Modulus;
use crate::verif_v::Lit;
impl Lit for MultiplyU64ModOperand { fn lit(&self) -> String { format!("crate::util::MultiplyU64ModOperand {{ operand: {}, quotient: {} }}", self.operand.lit(), self.quotient.lit()) } }

/// Native oracle for engine M: evaluates the REAL functions on concrete vectors read from /verif/.build/oracle_in.txt
/// (one request per line: `<function> <modulus> <args...>`) and writes one result line each to oracle_out.txt.
#[cfg(all(not(kani), test))]
mod oracle {
    use super::*;
    #[test]
    fn verif_oracle() {
        let inp = match std::fs::read_to_string("/verif/.build/oracle_in.txt") { Ok(s) => s, Err(_) => return };
        let mut out = String::new();
        for line in inp.lines() {
            let p: Vec<&str> = line.split_whitespace().collect();
            if p.is_empty() { continue; }
            let n = |i: usize| p[i].parse::<u128>().unwrap();
            let u = |i: usize| n(i) as u64;
            let r: String = std::panic::catch_unwind(|| {
                let m = if p[1] == "-" { Modulus::default() } else { Modulus::new(p[1].parse::<u64>().unwrap()) };
                match p[0] {
                    "add_u64_mod" => add_u64_mod(u(2), u(3), &m).to_string(),
                    "sub_u64_mod" => sub_u64_mod(u(2), u(3), &m).to_string(),
                    "negate_u64_mod" => negate_u64_mod(u(2), &m).to_string(),
                    "increment_u64_mod" => increment_u64_mod(u(2), &m).to_string(),
                    "decrement_u64_mod" => decrement_u64_mod(u(2), &m).to_string(),
                    "barrett_reduce_u64" => barrett_reduce_u64(u(2), &m).to_string(),
                    "reduce" => m.reduce(u(2)).to_string(),
                    "barrett_reduce_u128" => barrett_reduce_u128(&[u(2), u(3)], &m).to_string(),
                    "multiply_u64operand_mod" => multiply_u64operand_mod(u(2), &MultiplyU64ModOperand::new(u(3), &m), &m).to_string(),
                    "multiply_u64operand_mod_lazy" => multiply_u64operand_mod_lazy(u(2), &MultiplyU64ModOperand::new(u(3), &m), &m).to_string(),
                    "multiply_u64operand_add_u64_mod" => multiply_u64operand_add_u64_mod(u(2), &MultiplyU64ModOperand::new(u(3), &m), u(4), &m).to_string(),
                    "set_quotient" => MultiplyU64ModOperand::new(u(2), &m).quotient.to_string(),
                    "add_u64" => { let mut t = 0; let c = util::add_u64(u(2), u(3), &mut t); format!("{} {}", c, t) }
                    "add_u64_carry" => { let mut t = 0; let c = util::add_u64_carry(u(2), u(3), u(4) as u8, &mut t); format!("{} {}", c, t) }
                    "sub_u64" => { let mut t = 0; let c = util::sub_u64(u(2), u(3), &mut t); format!("{} {}", c, t) }
                    "sub_u64_borrow" => { let mut t = 0; let c = util::sub_u64_borrow(u(2), u(3), u(4) as u8, &mut t); format!("{} {}", c, t) }
                    "multiply_u64_high_word" => { let mut t = 0; util::multiply_u64_high_word(u(2), u(3), &mut t); t.to_string() }
                    _ => "unknown".to_string(),
                }
            }).unwrap_or_else(|_| "panic".to_string());
            out += &r; out.push('\n');
        }
        std::fs::write("/verif/.build/oracle_out.txt", out).unwrap();
    }
}

#[cfg(kani)]
mod proofs {
    use super::*;

    use crate::verif_v::lits::{with_modulus, MODULI_COUNT};
    /// quick tier: 8 representative members of the family (2, 3, 13, 2^31-1, 2^32+15, 2^59, 2^61-1, a 61-bit prime)
    fn pick() -> u8 { let sel: u8 = kani::any(); kani::assume(sel == 0 || sel == 1 || sel == 4 || sel == 14 || sel == 15 || sel == 17 || sel == 19 || sel == 20); sel }
    fn pick_all() -> u8 { let sel: u8 = kani::any(); kani::assume(sel < MODULI_COUNT); sel }
    /// value below 2^61 with symbolic bits 55..60 and 0..5
    fn sp61() -> u64 { let h: u8 = kani::any(); let l: u8 = kani::any(); kani::assume(h < 64 && l < 64); ((h as u64) << 55) | l as u64 }

    fn body_addsub(m: &Modulus) {
        let q = m.value();
        let a: u64 = kani::any(); let b: u64 = kani::any();
        kani::assume(a < q && b < q);
        kani::cover!(a < b);
        let s = a as u128 + b as u128;
        assert_eq!(add_u64_mod(a, b, m) as u128, if s >= q as u128 { s - q as u128 } else { s });
        assert_eq!(sub_u64_mod(a, b, m), if a >= b { a - b } else { q - (b - a) });
        assert_eq!(negate_u64_mod(a, m), if a == 0 { 0 } else { q - a });
        assert_eq!(decrement_u64_mod(a, m), if a == 0 { q - 1 } else { a - 1 });
        let c: u64 = kani::any(); kani::assume(c <= 2 * q - 2);
        let c1 = c + 1;
        assert_eq!(increment_u64_mod(c, m), if c1 >= q { c1 - q } else { c1 });
        if q & 1 == 1 {
            let h = div2_u64_mod(a, m);
            assert!(h < q);
            let t = h as u128 * 2;
            assert!(t == a as u128 || t == a as u128 + q as u128);
        }
    }
    // @harness id=C08 tier=quick timeout=600
    // @desc increment/decrement/negate/add/sub/div2 _u64_mod return the exact residue for every operand in range
    // @bounds 8 representative moduli of the generated family (quick; all 27 in the thorough _all variant) (27 concrete values: 2, 3, powers of two, tiny primes, composites, 31/32/40/59/60/61-bit values incl. 2^61-1 and VERIF_SEED-chosen ones; literals of the real Modulus::new); operands: all 64-bit values in the documented range
    // @funcs increment_u64_mod, decrement_u64_mod, negate_u64_mod, add_u64_mod, sub_u64_mod, div2_u64_mod, Modulus::new (literal)
    #[kani::proof]
    fn c08_add_sub_neg_family() { with_modulus(pick(), body_addsub); }

    fn body_barrett64(m: &Modulus) {
        let q = m.value();
        let x = { let h: u16 = kani::any(); let l: u16 = kani::any(); ((h as u64) << 48) | l as u64 };
        let r = barrett_reduce_u64(x, m);
        kani::cover!(x > q);
        assert!(r == x % q);
        assert!(m.reduce(x) == r);
    }
    // @harness id=C08 tier=deep timeout=900
    // @desc barrett_reduce_u64(x) == x % q and Modulus::reduce agrees
    // @bounds 8 representative moduli of the generated family (2, 3, 13, 2^31-1, 2^32+15, 2^59, 2^61-1, 61-bit prime; literals of the real Modulus::new, so const_ratio is the constructor's); x with symbolic top 16 and bottom 16 bits (values up to 2^64-1); full-width x at every family modulus: thorough tier harness c08_barrett64_family_all
    // @funcs barrett_reduce_u64, multiply_u64_high_word, Modulus::reduce, Modulus::set_value (through its literal output)
    #[kani::proof]
    fn c08_barrett64_family() { with_modulus(pick(), body_barrett64); }

    fn body_barrett128(m: &Modulus) {
        let q = m.value();
        let a = sp61(); let b = sp61(); let c = sp61();
        let p = a as u128 * b as u128;
        let e = (p % q as u128) as u64;
        kani::cover!(p > (1u128 << 100));
        assert!(multiply_u64_mod(a, b, m) == e);
        assert!(m.reduce_u128(p) == e);
        assert!(multiply_add_u64_mod(a, b, c, m) == ((p + c as u128) % q as u128) as u64);
    }
    // @harness id=C08 tier=deep timeout=900
    // @desc barrett_reduce_u128 / multiply_u64_mod / multiply_add_u64_mod / Modulus::reduce_u128 return the exact residue of the 128-bit value
    // @bounds 8 representative moduli of the generated family (quick; all 27 in the thorough _all variant); factors and addend below 2^61 with bits 55..60 and 0..5 symbolic (products reach 2^122: both words of the 128-bit input are exercised); full-width factors are out of CBMC's reach (engine M covers them at concrete moduli)
    // @funcs barrett_reduce_u128, multiply_u64_mod, multiply_add_u64_mod, Modulus::reduce_u128
    #[kani::proof]
    fn c08_barrett128_family() { with_modulus(pick(), body_barrett128); }

    fn body_mulop(m: &Modulus) {
        let q = m.value();
        // operand y: one of q-1, q/2, 1, 0 and a sparse value reduced below q
        let ysel: u8 = kani::any();
        let y = match ysel { 0 => q - 1, 1 => q / 2, 2 => 1, 3 => 0, _ => { let v = sp61(); kani::assume(v < q); v } };
        let op = MultiplyU64ModOperand::new(y, m);
        let lhs = (op.quotient as u128) * (q as u128);
        let rhs = (y as u128) << 64;
        assert!(op.operand == y && lhs <= rhs && rhs - lhs < q as u128);
        let x = { let h: u8 = kani::any(); let l: u8 = kani::any(); ((h as u64) << 56) | l as u64 };
        let e = ((x as u128 * y as u128) % q as u128) as u64;
        kani::cover!(x > q && e != 0);
        assert!(multiply_u64operand_mod(x, &op, m) == e);
        let l = multiply_u64operand_mod_lazy(x, &op, m);
        assert!((l as u128) < 2 * q as u128 && (l == e || l == e + q));
        let c: u64 = kani::any();
        let ec = (e as u128 + (c % q) as u128) % q as u128;
        assert!(multiply_u64operand_add_u64_mod(x, &op, c, m) as u128 == ec);
    }
    // @harness id=C08 tier=deep timeout=900
    // @desc MultiplyU64ModOperand::new: quotient = floor(operand*2^64/q); multiply_u64operand_mod exact; lazy form congruent and < 2q; multiply_u64operand_add_u64_mod adds the reduced addend
    // @bounds 8 representative moduli of the generated family (quick; all 27 in the thorough _all variant); operand y in {q-1, q/2, 1, 0, sparse value < q}; x any 64-bit value with symbolic top byte and bottom byte (so x up to 2^64-1 > q); addend any u64
    // @funcs MultiplyU64ModOperand::new, MultiplyU64ModOperand::set_quotient, divide_u128_u64_inplace, multiply_u64operand_mod, multiply_u64operand_mod_lazy, multiply_u64operand_add_u64_mod
    #[kani::proof]
    fn c08_mulop_family() { with_modulus(pick(), body_mulop); }

    fn body_exp(m: &Modulus) {
        let q = m.value();
        let b = sp61(); kani::assume(b < q);
        let e: u8 = kani::any(); kani::assume(e < 8);
        let got = exponentiate_u64_mod(b, e as u64, m);
        let mulm = |x: u64, y: u64| ((x as u128 * y as u128) % q as u128) as u64;
        let b2 = mulm(b, b); let b4 = mulm(b2, b2);
        let mut acc = 1u64;
        if e & 1 != 0 { acc = mulm(acc, b); }
        if e & 2 != 0 { acc = mulm(acc, b2); }
        if e & 4 != 0 { acc = mulm(acc, b4); }
        // documented quirk kept as-is: exponent 0 returns 1 and exponent 1 returns the operand unreduced (operand < q here)
        kani::cover!(e == 7 && got > 1);
        assert!(got == if e == 0 { 1 } else { acc } || (q == 1));
    }
    // @harness id=C08 tier=deep unwind=5 timeout=900
    // @desc exponentiate_u64_mod(b, e) = b^e mod q (reference: binary powering with % on u128)
    // @bounds 8 representative moduli of the generated family (quick; all 27 in the thorough _all variant) except 2 handled alike; base < q with bits 55..60 and 0..5 symbolic; exponent 0..7
    // @funcs exponentiate_u64_mod, multiply_u64_mod
    #[kani::proof]
    fn c08_exp_family() { with_modulus(pick(), body_exp); }

    fn body_dot(m: &Modulus) {
        let q = m.value();
        let c: u8 = kani::any();
        let a = [sp61(), sp61(), sp61()]; let b = [sp61(), sp61(), sp61()];
        let mut e = a[0] as u128 * b[0] as u128;
        let got = match c {
            0 => dot_product_mod(&a[..1], &b[..1], m),
            1 => { e += a[1] as u128 * b[1] as u128; dot_product_mod(&a[..2], &b[..2], m) }
            _ => { e += a[1] as u128 * b[1] as u128; e += a[2] as u128 * b[2] as u128; dot_product_mod(&a[..3], &b[..3], m) }
        };
        kani::cover!(c > 1 && e > (1u128 << 123));
        assert!(got == (e % q as u128) as u64);
    }
    // @harness id=C08 tier=deep unwind=5 timeout=900
    // @desc dot_product_mod of two length-k vectors (k = 1..3) = sum of products mod q
    // @bounds 8 representative moduli of the generated family (quick; all 27 in the thorough _all variant); entries below 2^61 with bits 55..60 and 0..5 symbolic
    // @funcs dot_product_mod, add_u128_inplace, multiply_u64_u64, barrett_reduce_u128
    #[kani::proof]
    fn c08_dot_family() { with_modulus(pick(), body_dot); }

    fn body_modulo(m: &Modulus) {
        let q = m.value();
        let c: u8 = kani::any();
        let w = [kani::any::<u64>(), sp61(), sp61()];
        // reference: Horner from the top word with % on u128 (r < q <= 2^61 so r*2^64 + w fits u128)
        let step = |r: u64, lo: u64| ((((r as u128) << 64) | lo as u128) % q as u128) as u64;
        let (got, e) = match c {
            0 => (modulo_uint(&w[..1], m), w[0] % q),
            1 => (modulo_uint(&w[..2], m), step(w[1] % q, w[0])),
            _ => (modulo_uint(&w[..3], m), step(step(w[2] % q, w[1]), w[0])),
        };
        // documented precondition (barrett_reduce_128): the top word must already be below q
        kani::assume(c == 0 || (c == 1 && w[1] < q) || (c >= 2 && w[2] < q));
        kani::cover!(c >= 2 && w[2] > 0);
        assert!(got == e);
        let mut wi = w;
        match c { 0 => modulo_uint_inplace(&mut wi[..1], m), 1 => modulo_uint_inplace(&mut wi[..2], m), _ => modulo_uint_inplace(&mut wi[..3], m) };
        assert!(wi[0] == e && (c == 0 || wi[1] == 0) && (c < 2 || wi[2] == 0));
    }
    // @harness id=C08 tier=deep unwind=5 timeout=900
    // @desc modulo_uint / modulo_uint_inplace of a k-word value (k = 1..3) = value mod q, upper words cleared by the in-place form
    // @bounds 8 representative moduli of the generated family (quick; all 27 in the thorough _all variant); lowest word any u64, upper words below 2^61 (sparse: bits 55..60, 0..5) with the top word < q (documented precondition of the 128-bit Barrett step)
    // @funcs modulo_uint, modulo_uint_inplace, barrett_reduce_u128, barrett_reduce_u64
    #[kani::proof]
    fn c08_modulo_uint_family() { with_modulus(pick(), body_modulo); }


    // @harness id=C08 tier=deep timeout=3000
    // @desc as c08_add_sub_neg_family / c08_barrett64_family over ALL family moduli
    // @bounds all 27 family moduli; add/sub operands full width; barrett x sparse (top/bottom 16 bits)
    // @funcs add_u64_mod, sub_u64_mod, negate_u64_mod, increment_u64_mod, decrement_u64_mod, div2_u64_mod, barrett_reduce_u64
    #[kani::proof]
    fn c08_addsub_barrett64_family_all() { let c: bool = kani::any(); if c { with_modulus(pick_all(), body_addsub) } else { with_modulus(pick_all(), body_barrett64) } }

    // @harness id=C08 tier=deep timeout=3000
    // @desc as c08_barrett128_family / c08_mulop_family over ALL family moduli
    // @bounds all 27 family moduli; sparse operands as in the quick harnesses
    // @funcs barrett_reduce_u128, multiply_u64_mod, multiply_add_u64_mod, MultiplyU64ModOperand::new, multiply_u64operand_mod, multiply_u64operand_mod_lazy
    #[kani::proof]
    fn c08_barrett128_mulop_family_all() { let c: bool = kani::any(); if c { with_modulus(pick_all(), body_barrett128) } else { with_modulus(pick_all(), body_mulop) } }


    #[cfg(test)] include!("/verif/.build/playback/util_uintsmallmod_v.rs");
}
