//! Verification harnesses compiled into heathcliff::text as child module `verif_v`.
#![allow(unused, dead_code, non_snake_case)]
use super::*;
use crate::verif_v::{Lit, verif_struct};

verif_struct!(Plaintext, "crate::text::verif_v::mk_plaintext", mk_plaintext, {
    coeff_count: usize, data: Vec<u64>, parms_id: ParmsID, scale: f64 });
verif_struct!(Ciphertext, "crate::text::verif_v::mk_ciphertext", mk_ciphertext, {
    size: usize, coeff_modulus_size: usize, poly_modulus_degree: usize, data: Vec<u64>, parms_id: ParmsID,
    scale: f64, is_ntt_form: bool, correction_factor: u64 });
