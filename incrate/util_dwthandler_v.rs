//! Verification harnesses compiled into heathcliff::util::dwthandler as child module `verif_v`.
#![allow(unused, dead_code, non_snake_case)]
use super::*;
use crate::verif_v::{Lit, verif_struct};

pub(crate) fn mk_dwt<A: Arithmetic>(arithmetic: A) -> DWTHandler<A> { DWTHandler { arithmetic } }
pub(crate) fn arith_of<A: Arithmetic>(h: &DWTHandler<A>) -> &A { &h.arithmetic }
