//! Verification harnesses compiled into heathcliff::app/lwe as child module `verif_v`.
#![allow(unused, dead_code, non_snake_case)]
use super::*;

#[cfg(kani)]
mod proofs {
    use super::*;
    use crate::verif_v::lits;
    use crate::text::verif_v::mk_ciphertext;
    use crate::evaluator::verif_v::mk_evaluator;

    /// coefficient k of a*s in Z_q[X]/(X^4+1)
    fn negacyclic_coeff(a: &[u64; 4], s: &[u64; 4], k: usize, q: u64) -> u64 {
        let mut acc = 0u64; let mut j = 0;
        while j < 4 {
            let idx = (k + 4 - j) % 4;
            let term = (a[j] * s[idx]) % q;
            acc = if j > k { (acc + q - term) % q } else { (acc + term) % q };
            j += 1;
        }
        acc
    }

    // @harness id=C19 tier=thorough unwind=18 timeout=6000 fs=4096
    // @desc extract_lwe(ct, i) followed by assemble_lwe gives a ciphertext whose CONSTANT phase coefficient under any secret key equals coefficient i of the original phase c0 + c1*s, for every index i; level, scale and correction factor are carried over
    // @bounds BFV N=4, q={97,113} (checked in both RNS components), coefficient representation; all ciphertext residues, all ternary keys, every i in 0..3
    // @funcs Evaluator::extract_lwe, LWECiphertext::assemble_lwe, Evaluator::assemble_lwe, polysmallmod::negacyclic_shift_p
    // @stubs HeContext::get_context_data -> linear search over the literal chain; alloc::sync::Arc::drop_slow -> no-op
    #[kani::proof]
    #[kani::stub(crate::context::HeContext::get_context_data, crate::context::verif_v::get_context_data_stub)]
    #[kani::stub(alloc::sync::Arc::drop_slow, crate::verif_v::arc_drop_slow_noop)]
    fn c19_extract_assemble_phase() {
        let ctx = lits::ctx_bfv_n4_2p1();
        let ev = mk_evaluator(ctx.clone());
        let pid = *ctx.first_parms_id();
        let d: [u8; 16] = kani::any();
        let mut v = [0u64; 16]; let mut k = 0;
        while k < 16 { let q = if (k / 4) % 2 == 0 { 97 } else { 113 }; kani::assume((d[k] as u64) < q); v[k] = d[k] as u64; k += 1; }
        let ct = mk_ciphertext(2, 2, 4, v.to_vec(), pid, 1.0, false, 1);
        let i: usize = kani::any(); kani::assume(i < 4);
        let lwe = match i { 0 => ev.extract_lwe(&ct, 0), 1 => ev.extract_lwe(&ct, 1), 2 => ev.extract_lwe(&ct, 2), _ => ev.extract_lwe(&ct, 3) };
        let asm = ev.assemble_lwe(&lwe);
        assert!(asm.size() == 2 && asm.data().len() == 16 && *asm.parms_id() == pid && !asm.is_ntt_form() && asm.scale() == 1.0 && asm.correction_factor() == 1);
        let sk: [u8; 4] = kani::any(); kani::assume(sk[0] < 3 && sk[1] < 3 && sk[2] < 3 && sk[3] < 3);
        let comp: usize = kani::any(); kani::assume(comp < 2);
        let q = if comp == 0 { 97u64 } else { 113 };
        let s = [if sk[0] == 2 { q - 1 } else { sk[0] as u64 }, if sk[1] == 2 { q - 1 } else { sk[1] as u64 }, if sk[2] == 2 { q - 1 } else { sk[2] as u64 }, if sk[3] == 2 { q - 1 } else { sk[3] as u64 }];
        let c0 = [v[comp * 4], v[comp * 4 + 1], v[comp * 4 + 2], v[comp * 4 + 3]];
        let c1 = [v[8 + comp * 4], v[8 + comp * 4 + 1], v[8 + comp * 4 + 2], v[8 + comp * 4 + 3]];
        let want = (c0[i] + negacyclic_coeff(&c1, &s, i, q)) % q;
        let a0 = [asm.data()[comp * 4], asm.data()[comp * 4 + 1], asm.data()[comp * 4 + 2], asm.data()[comp * 4 + 3]];
        let a1 = [asm.data()[8 + comp * 4], asm.data()[8 + comp * 4 + 1], asm.data()[8 + comp * 4 + 2], asm.data()[8 + comp * 4 + 3]];
        let got = (a0[0] + negacyclic_coeff(&a1, &s, 0, q)) % q;
        kani::cover!(i == 3 && want != 0);
        assert!(got == want);
        assert!(a0[1] == 0 && a0[2] == 0 && a0[3] == 0);
        std::mem::forget(ev); std::mem::forget(ctx);
    }

    // @harness id=C19 tier=quick unwind=14 timeout=3000 fs=4096
    // @desc extract_lwe + assemble_lwe on a ciphertext with THREE coefficient moduli at its level: the constant phase coefficient of the re-assembled ciphertext equals coefficient i of the original phase in EVERY RNS component (all residues of c0[i] are gathered, not only the first two), for every ternary key
    // @bounds BFV N=2, chain {97,113,193,241}: ciphertext at the first data level {97,113,193}; all ciphertext residues; all ternary keys; index i = 0 (i = 1: harness _i1); component symbolic
    // @funcs Evaluator::extract_lwe, LWECiphertext::assemble_lwe, Evaluator::assemble_lwe, polysmallmod::negacyclic_shift_p
    // @stubs HeContext::get_context_data -> linear search over the literal chain; alloc::sync::Arc::drop_slow -> no-op
    #[kani::proof]
    #[kani::stub(crate::context::HeContext::get_context_data, crate::context::verif_v::get_context_data_stub)]
    #[kani::stub(alloc::sync::Arc::drop_slow, crate::verif_v::arc_drop_slow_noop)]
    fn c19_extract_assemble_three_primes_i0() { three_primes_case(0) }

    // @harness id=C19 tier=quick unwind=14 timeout=3000 fs=4096
    // @desc extract_lwe + assemble_lwe on a ciphertext with THREE coefficient moduli at its level: the constant phase coefficient of the re-assembled ciphertext equals coefficient i of the original phase in EVERY RNS component (all residues of c0[i] are gathered, not only the first two), for every ternary key
    // @bounds BFV N=2, chain {97,113,193,241}: ciphertext at the first data level {97,113,193}; all ciphertext residues; all ternary keys; index i = 1 (i = 0: harness _i0); component symbolic
    // @funcs Evaluator::extract_lwe, LWECiphertext::assemble_lwe, Evaluator::assemble_lwe, polysmallmod::negacyclic_shift_p
    // @stubs HeContext::get_context_data -> linear search over the literal chain; alloc::sync::Arc::drop_slow -> no-op
    #[kani::proof]
    #[kani::stub(crate::context::HeContext::get_context_data, crate::context::verif_v::get_context_data_stub)]
    #[kani::stub(alloc::sync::Arc::drop_slow, crate::verif_v::arc_drop_slow_noop)]
    fn c19_extract_assemble_three_primes_i1() { three_primes_case(1) }

    fn three_primes_case(idx: usize) {
        let ctx = lits::ctx_bfv_n2_4p();
        let ev = mk_evaluator(ctx.clone());
        let pid = *ctx.first_parms_id();
        let qs = [97u64, 113, 193];
        let d: [u8; 12] = kani::any();
        let mut v = [0u64; 12]; let mut k = 0;
        while k < 12 { kani::assume((d[k] as u64) < qs[(k / 2) % 3]); v[k] = d[k] as u64; k += 1; }
        let ct = mk_ciphertext(2, 3, 2, v.to_vec(), pid, 1.0, false, 1);
        let lwe = ev.extract_lwe(&ct, idx);
        let asm = ev.assemble_lwe(&lwe);
        assert!(asm.size() == 2 && asm.data().len() == 12 && *asm.parms_id() == pid && !asm.is_ntt_form());
        let sk: [u8; 2] = kani::any(); kani::assume(sk[0] < 3 && sk[1] < 3);
        let comp: usize = kani::any(); kani::assume(comp < 3);
        let q = qs[comp];
        let s = [if sk[0] == 2 { q - 1 } else { sk[0] as u64 }, if sk[1] == 2 { q - 1 } else { sk[1] as u64 }];
        // phase coefficients of (c0, c1) under s in Z_q[X]/(X^2+1)
        let ph = |c0: [u64; 2], c1: [u64; 2], k: usize| if k == 0 { (c0[0] + c1[0] * s[0] + (q * q - c1[1] * s[1])) % q } else { (c0[1] + c1[0] * s[1] + c1[1] * s[0]) % q };
        let want = ph([v[comp * 2], v[comp * 2 + 1]], [v[6 + comp * 2], v[6 + comp * 2 + 1]], idx);
        let got = ph([asm.data()[comp * 2], asm.data()[comp * 2 + 1]], [asm.data()[6 + comp * 2], asm.data()[6 + comp * 2 + 1]], 0);
        kani::cover!(comp == 2 && want != 0);
        assert!(got == want);
        assert!(asm.data()[comp * 2 + 1] == 0);
        std::mem::forget(ev); std::mem::forget(ctx);
    }

    #[cfg(test)] include!("/verif/.build/playback/app_lwe_v.rs");
}
