//! Verification harnesses compiled into heathcliff::util::ntt as child module `verif_v`.
#![allow(unused, dead_code, non_snake_case)]
use super::*;
use crate::verif_v::{Lit, verif_struct};

/// `ModArithLazy` / `NTTHandler` are private types: the handler is rebuilt from (modulus, 2*modulus).
impl Lit for NTTTables {
    fn lit(&self) -> String {
        let parts: Vec<String> = vec![self.root.lit(), self.coeff_count_power.lit(), self.coeff_count.lit(), self.modulus.lit(),
            self.inv_degree_modulo.lit(), self.root_powers.lit(), self.inv_root_powers.lit(),
            crate::util::verif_v::dwthandler::arith_of(&self.ntt_handler).modulus.lit(),
            crate::util::verif_v::dwthandler::arith_of(&self.ntt_handler).two_times_modulus.lit()];
        format!("crate::util::verif_v::ntt::mk_ntt_tables(\n{})", parts.join(",\n"))
    }
}
#[allow(clippy::too_many_arguments)]
pub(crate) fn mk_ntt_tables(root: u64, coeff_count_power: usize, coeff_count: usize, modulus: Modulus,
    inv_degree_modulo: MultiplyU64ModOperand, root_powers: Vec<MultiplyU64ModOperand>,
    inv_root_powers: Vec<MultiplyU64ModOperand>, h_modulus: Modulus, h_two_times_modulus: u64) -> NTTTables {
    NTTTables { root, coeff_count_power, coeff_count, modulus, inv_degree_modulo, root_powers, inv_root_powers,
        ntt_handler: crate::util::verif_v::dwthandler::mk_dwt(ModArithLazy { modulus: h_modulus, two_times_modulus: h_two_times_modulus }) }
}
