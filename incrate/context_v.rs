//! Verification support compiled into heathcliff::context as child module `verif_v`.
//!
//! * direct constructors for `ContextData` / `HeContext` (used by generated literal tables),
//! * the `get_context_data` stub used under `-Z stubbing` (HashMap lookups are out of CBMC's reach),
//! * the native literal generator (`verif_gen_contexts`), which runs the REAL `HeContext::new`
//!   for every parameter set and prints the resulting state as Rust expressions.
#![allow(unused, dead_code, non_snake_case, static_mut_refs)]
use super::*;
use crate::verif_v::Lit;
use crate::Modulus;

#[allow(clippy::too_many_arguments)]
pub(crate) fn mk_context_data(
    parms: EncryptionParameters, qualifiers: EncryptionParameterQualifiers, rns_tool: Option<RNSTool>,
    small_ntt_tables: Vec<NTTTables>, plain_ntt_tables: Option<NTTTables>, galois_tool: Option<GaloisTool>,
    total_coeff_modulus: Vec<u64>, total_coeff_modulus_bit_count: usize,
    coeff_div_plain_modulus: Vec<MultiplyU64ModOperand>, plain_upper_half_threshold: u64,
    plain_upper_half_increment: Vec<u64>, upper_half_threshold: Vec<u64>, upper_half_increment: Vec<u64>,
    coeff_modulus_mod_plain_modulus: u64, next_context_data: Option<Arc<ContextData>>, chain_index: usize,
) -> ContextData {
    ContextData {
        parms, qualifiers, rns_tool, small_ntt_tables, plain_ntt_tables, galois_tool, total_coeff_modulus,
        total_coeff_modulus_bit_count, coeff_div_plain_modulus, plain_upper_half_threshold,
        plain_upper_half_increment, upper_half_threshold, upper_half_increment, coeff_modulus_mod_plain_modulus,
        prev_context_data: None, next_context_data, chain_index,
    }
}

/// Same linking step as `HeContext::create_next_context_data` performs on the previous node.
pub(crate) fn set_prev(node: &Arc<ContextData>, prev: &Arc<ContextData>) {
    unsafe {
        let ptr = Arc::as_ptr(node).cast_mut();
        (*ptr).prev_context_data = Some(Arc::downgrade(prev));
    }
}

/// Typed static storage for the chain nodes under Kani: an `ArcInner<ContextData>` allocated on the heap is a byte
/// array to CBMC (every reference-count update and every field read goes through byte-level updates of a ~2.5 KB
/// object); a static of the same `#[repr(C)]` layout is a typed struct, so the same accesses are plain field accesses.
/// `Arc::from_raw` on the data field yields an ordinary `Arc<ContextData>` (never freed: drop_slow is stubbed and the
/// count never reaches zero).
#[repr(C)]
pub(crate) struct Slot { strong: std::sync::atomic::AtomicUsize, weak: std::sync::atomic::AtomicUsize, data: std::mem::MaybeUninit<ContextData> }
#[cfg(any())]
static mut SLOTS: [Slot; 5] = [const { Slot { strong: std::sync::atomic::AtomicUsize::new(1), weak: std::sync::atomic::AtomicUsize::new(1), data: std::mem::MaybeUninit::uninit() } }; 5];
pub(crate) fn arc_node(i: usize, cd: ContextData) -> Arc<ContextData> {
    // MEASURED (build round): placing the nodes in the typed static made a bare lookup+drop 5x cheaper (104 s -> 21 s for
    // eight lookups) but made whole evaluator harnesses several times SLOWER (add/sub: 390 s -> no verdict in 25 min),
    // so the nodes stay ordinary heap Arcs and the static slots are unused.
    { let _ = i; Arc::new(cd) }
}

/// Chain served by the `get_context_data` stub (Kani is single threaded).
pub(crate) static mut CHAIN: Vec<Arc<ContextData>> = Vec::new();

pub(crate) fn mk_hecontext(
    key_parms_id: ParmsID, first_parms_id: ParmsID, last_parms_id: ParmsID, chain: Vec<Arc<ContextData>>,
    sec_level: SecurityLevel, using_keyswitching: bool, random_generator_factory: BlakeRNGFactory,
) -> HeContext {
    #[cfg(all(kani, not(test)))]
    let context_data_map = {
        // RandomState::new() reads OS entropy (unsupported foreign call): build the hasher state directly.
        let rs: std::collections::hash_map::RandomState = unsafe { std::mem::transmute([0u64; 2]) };
        unsafe { CHAIN = chain; }
        HashMap::with_hasher(rs)
    };
    #[cfg(not(all(kani, not(test))))]
    let context_data_map = {
        let mut m = HashMap::new();
        for c in chain.iter() { m.insert(*c.parms_id(), c.clone()); }
        m
    };
    HeContext { key_parms_id, first_parms_id, last_parms_id, context_data_map, sec_level, using_keyswitching, random_generator_factory }
}

#[inline(never)]
fn pid_eq(a: &ParmsID, b: &ParmsID) -> bool { a[0] == b[0] && a[1] == b[1] && a[2] == b[2] && a[3] == b[3] }

/// `-Z stubbing` replacement of `HeContext::get_context_data`: loop-free search over the literal chain
/// (chains of at most 5 levels). CUT: the HashMap lookup itself is outside every claim.
pub(crate) fn get_context_data_stub(_this: &HeContext, parms_id: &ParmsID) -> Option<Arc<ContextData>> {
    unsafe {
        let n = CHAIN.len();
        if n > 0 && pid_eq(CHAIN[0].parms_id(), parms_id) { return Some(CHAIN[0].clone()); }
        if n > 1 && pid_eq(CHAIN[1].parms_id(), parms_id) { return Some(CHAIN[1].clone()); }
        if n > 2 && pid_eq(CHAIN[2].parms_id(), parms_id) { return Some(CHAIN[2].clone()); }
        if n > 3 && pid_eq(CHAIN[3].parms_id(), parms_id) { return Some(CHAIN[3].clone()); }
        if n > 4 && pid_eq(CHAIN[4].parms_id(), parms_id) { return Some(CHAIN[4].clone()); }
        None
    }
}

pub(crate) fn chain_len() -> usize { unsafe { CHAIN.len() } }
pub(crate) fn chain_at(i: usize) -> Arc<ContextData> { unsafe { CHAIN[i].clone() } }

// ---------------------------------------------------------------------------------------------
// native literal generator
// ---------------------------------------------------------------------------------------------
#[cfg(not(kani))]
pub(crate) mod gen {
    use super::*;

    fn node_lit(c: &ContextData, next: Option<&str>) -> String {
        let parts: Vec<String> = vec![
            c.parms.lit(), c.qualifiers.lit(), c.rns_tool.lit(), c.small_ntt_tables.lit(), c.plain_ntt_tables.lit(),
            c.galois_tool.lit(), c.total_coeff_modulus.lit(), c.total_coeff_modulus_bit_count.lit(),
            c.coeff_div_plain_modulus.lit(), c.plain_upper_half_threshold.lit(), c.plain_upper_half_increment.lit(),
            c.upper_half_threshold.lit(), c.upper_half_increment.lit(), c.coeff_modulus_mod_plain_modulus.lit(),
            match next { None => "None".to_string(), Some(n) => format!("Some({}.clone())", n) },
            c.chain_index.lit(),
        ];
        format!("crate::context::verif_v::mk_context_data(\n{})", parts.join(",\n"))
    }

    /// Emits `pub(crate) fn ctx_<name>() -> Arc<HeContext>` rebuilding `ctx` (chain order: key level first).
    pub(crate) fn ctx_fn(name: &str, ctx: &HeContext) -> String {
        let mut nodes: Vec<Arc<ContextData>> = vec![];
        let mut cur = ctx.key_context_data();
        while let Some(c) = cur { cur = c.next_context_data(); nodes.push(c); }
        assert_eq!(nodes.len(), ctx.context_data_map.len(), "chain walk must reach every level");
        let mut s = format!("pub(crate) fn ctx_{}() -> std::sync::Arc<crate::HeContext> {{\n", name);
        for i in (0..nodes.len()).rev() {
            let next = if i + 1 < nodes.len() { Some(format!("n{}", i + 1)) } else { None };
            // GaloisTool permutation tables are emitted as found (lazily grown cache)
            s += &format!("let n{} = crate::context::verif_v::arc_node({}, {});\n", i, i, node_lit(&nodes[i], next.as_deref()));
        }
        for i in 1..nodes.len() {
            if nodes[i].prev_context_data().is_some() { s += &format!("crate::context::verif_v::set_prev(&n{}, &n{});\n", i, i - 1); }
        }
        let chain = (0..nodes.len()).map(|i| format!("n{}", i)).collect::<Vec<_>>().join(", ");
        s += &format!("std::sync::Arc::new(crate::context::verif_v::mk_hecontext({}, {}, {}, vec![{}], {}, {}, {}))\n}}\n",
            ctx.key_parms_id.lit(), ctx.first_parms_id.lit(), ctx.last_parms_id.lit(), chain,
            ctx.sec_level.lit(), ctx.using_keyswitching.lit(),
            // the factory's entropy path is an environment stub in every harness; emit a seeded factory
            "crate::util::verif_v::random_generator::mk_rng_factory(false, crate::util::PRNGSeed([0u8; 64]))");
        s
    }

    pub(crate) struct PSet { pub name: &'static str, pub scheme: SchemeType, pub n: usize, pub q: &'static [u64], pub t: u64, pub expand: bool, pub special: bool }

    /// Parameter sets. All use SecurityLevel::None (tiny parameters). The internal auxiliary primes
    /// (B, m_sk, gamma: 61 bits; m_tilde = 2^32) are whatever the real `RNSTool::new` picks.
    pub(crate) const SETS: &[PSet] = &[
        // primes > 42 so that error samples (|e| <= 21) are canonical residues; all residues fit a u8.
        // "_1p": one prime, one level.  "_2p1": two primes, ONE level (special-prime-for-encryption flag: key level = data level).
        // unsuffixed: three primes, full chain of 3 levels (key {97,113,193}, first {97,113}, last {97}).
        PSet { name: "bfv_n2_1p",     scheme: SchemeType::BFV,  n: 2, q: &[97],            t: 3,   expand: true, special: false },
        PSet { name: "bgv_n2_1p",     scheme: SchemeType::BGV,  n: 2, q: &[97],            t: 17,  expand: true, special: false },
        PSet { name: "ckks_n2_1p",    scheme: SchemeType::CKKS, n: 2, q: &[97],            t: 0,   expand: true, special: false },
        PSet { name: "bfv_n2_2p1",    scheme: SchemeType::BFV,  n: 2, q: &[97, 113],       t: 17,  expand: true, special: true },
        PSet { name: "bgv_n2_2p1",    scheme: SchemeType::BGV,  n: 2, q: &[97, 113],       t: 17,  expand: true, special: true },
        PSet { name: "ckks_n2_2p1",   scheme: SchemeType::CKKS, n: 2, q: &[97, 113],       t: 0,   expand: true, special: true },
        PSet { name: "bfv_n2_nolift", scheme: SchemeType::BFV,  n: 2, q: &[97, 113],       t: 101, expand: true, special: true },  // t > q_0: no fast plain lift
        PSet { name: "bfv_n2_pow2t",  scheme: SchemeType::BFV,  n: 2, q: &[113, 97],       t: 16,  expand: true, special: true },  // t = 2^k, non-ascending order
        PSet { name: "bfv_n2",        scheme: SchemeType::BFV,  n: 2, q: &[97, 113, 193],  t: 17,  expand: true, special: false },
        PSet { name: "bgv_n2",        scheme: SchemeType::BGV,  n: 2, q: &[97, 113, 193],  t: 17,  expand: true, special: false },
        PSet { name: "ckks_n2",       scheme: SchemeType::CKKS, n: 2, q: &[97, 113, 193],  t: 0,   expand: true, special: false },
        PSet { name: "bfv_n2_4p",     scheme: SchemeType::BFV,  n: 2, q: &[97, 113, 193, 241], t: 17, expand: true, special: false }, // 4 levels
        PSet { name: "ckks_n2_4p",    scheme: SchemeType::CKKS, n: 2, q: &[97, 113, 193, 241], t: 0, expand: true, special: false }, // data levels {97,113,193} > {97,113} > {97}
        PSet { name: "bfv_n2_bigt",   scheme: SchemeType::BFV,  n: 2, q: &[97, 113],       t: 1009, expand: false, special: true }, // t > q_0 and (Q mod t) >= q_0
        // 60-bit prime with a 40-bit t chosen so that (q mod t) ~ 2^30: (q mod t)*m reaches 2^64 for m < t (carry corner of multiply_add_plain)
        PSet { name: "bfv_n2_q60_t40", scheme: SchemeType::BFV, n: 2, q: &[1152921504606830593], t: 1099511626751, expand: true, special: false },
        // residue byte widths 1, 2 and 3 (97, 12289, 65537) for the byte-width packing of the serializers
        PSet { name: "bfv_n2_bytes",  scheme: SchemeType::BFV,  n: 2, q: &[97, 12289, 65537], t: 17, expand: false, special: true },
        // N=4 (q = 1 mod 8), batching t = 17
        PSet { name: "bfv_n4_2p1",    scheme: SchemeType::BFV,  n: 4, q: &[97, 113],       t: 17,  expand: true, special: true },
        PSet { name: "bgv_n4_2p1",    scheme: SchemeType::BGV,  n: 4, q: &[97, 113],       t: 17,  expand: true, special: true },
        PSet { name: "ckks_n4_2p1",   scheme: SchemeType::CKKS, n: 4, q: &[97, 113],       t: 0,   expand: true, special: true },
        PSet { name: "bfv_n4",        scheme: SchemeType::BFV,  n: 4, q: &[97, 113, 193],  t: 17,  expand: true, special: false },
        // N=16 (q = 1 mod 32), batching t = 97: used for the rotation-composition logic (data irrelevant)
        PSet { name: "bfv_n16_2p1",   scheme: SchemeType::BFV,  n: 16, q: &[193, 257],     t: 97,  expand: true, special: true },
        // N=32 (q = 1 mod 64), batching t = 193: rotation composition with NAF digits -N/2
        PSet { name: "bfv_n32_2p1",   scheme: SchemeType::BFV,  n: 32, q: &[257, 449],     t: 193, expand: true, special: true },
        // N=8 (q = 1 mod 16), batching t = 17
        PSet { name: "bfv_n8_2p1",    scheme: SchemeType::BFV,  n: 8, q: &[97, 113],       t: 17,  expand: true, special: true },
    ];

    pub(crate) fn build(p: &PSet) -> Arc<HeContext> {
        let moduli: Vec<Modulus> = p.q.iter().map(|&x| Modulus::new(x)).collect();
        let mut parms = EncryptionParameters::new(p.scheme).set_poly_modulus_degree(p.n).set_coeff_modulus(&moduli);
        if p.t != 0 { parms = parms.set_plain_modulus(&Modulus::new(p.t)); }
        parms = parms.set_use_special_prime_for_encryption(p.special);
        let ctx = HeContext::new(parms, p.expand, SecurityLevel::None);
        assert!(ctx.parameters_set(), "parameter set {} rejected: {:?}", p.name, ctx.first_context_data().unwrap().qualifiers().parameter_error);
        ctx
    }

    #[cfg(test)]
    #[test]
    fn verif_gen_contexts() {
        let mut all = String::from("// GENERATED by verif_gen_contexts from the real constructors; do not edit.\n");
        let mut summary = vec![];
        for p in SETS {
            let ctx = build(p);
            all += &ctx_fn(p.name, &ctx);
            summary.push(format!("{{\"set\":\"{}\",\"levels\":{},\"keyswitching\":{}}}", p.name, ctx.context_data_map.len(), ctx.using_keyswitching));
        }
        crate::verif_v::write_gen("ctx.rs", &all);
        crate::verif_v::write_gen("ctx.json", &format!("[{}]", summary.join(",")));
    }
}


#[cfg(kani)]
mod proofs {
    use super::*;
    use crate::verif_v::lits;

    fn check_chain(ctx: &Arc<HeContext>, q: &[u64], t: u64, n: usize, levels: usize, key_is_first: bool) {
        assert!(chain_len() == levels);
        let key = chain_at(0);
        assert!(*key.parms_id() == ctx.key_parms_id);
        let first_idx = if key_is_first { 0 } else { 1 };
        assert!(*chain_at(first_idx).parms_id() == ctx.first_parms_id);
        assert!(*chain_at(levels - 1).parms_id() == ctx.last_parms_id);
        assert!(ctx.using_keyswitching == !key_is_first);
        let mut i = 0;
        while i < levels {
            let cd = chain_at(i);
            let k = q.len() - i;                               // prefix moduli set of this level
            assert!(cd.chain_index == levels - 1 - i);         // strictly decreasing, ending at 0
            assert!(cd.parms.coeff_modulus().len() == k && cd.parms.poly_modulus_degree() == n);
            let mut j = 0; let mut prod: u128 = 1;
            while j < k { assert!(cd.parms.coeff_modulus()[j].value() == q[j]); prod *= q[j] as u128; j += 1; }
            assert!(cd.qualifiers.parameters_set());
            // doubly linked
            match &cd.next_context_data { Some(nx) => { assert!(i + 1 < levels && nx.parms_id() == chain_at(i + 1).parms_id()); } None => { assert!(i + 1 == levels); } }
            match cd.prev_context_data() { Some(pv) => { assert!(i >= 1 && pv.parms_id() == chain_at(i - 1).parms_id()); std::mem::forget(pv); } None => { assert!(i == 0); } }
            // constants equal their definitions (products fit u128 here)
            assert!(cd.total_coeff_modulus.len() == k && cd.total_coeff_modulus[0] as u128 == prod && (k < 2 || cd.total_coeff_modulus[1] == 0));
            assert!(cd.total_coeff_modulus_bit_count == (128 - prod.leading_zeros()) as usize);
            if t != 0 {
                assert!(cd.plain_upper_half_threshold == (t + 1) >> 1);
                assert!(cd.coeff_modulus_mod_plain_modulus as u128 == prod % t as u128);
                let delta = prod / t as u128;
                let mut j = 0;
                while j < k {
                    assert!(cd.coeff_div_plain_modulus[j].operand as u128 == delta % q[j] as u128);
                    assert!(cd.upper_half_increment[j] as u128 == (prod % t as u128) % q[j] as u128);
                    j += 1;
                }
            } else {
                assert!(cd.plain_upper_half_threshold == 1u64 << 63);
                assert!(cd.upper_half_threshold[0] as u128 == (prod + 1) >> 1);
                let mut j = 0;
                while j < k { assert!(cd.plain_upper_half_increment[j] as u128 == (q[j] as u128 - ((1u128 << 64) % q[j] as u128)) % q[j] as u128); j += 1; }
            }
            assert!(cd.small_ntt_tables.len() == k && cd.rns_tool.is_some() && cd.galois_tool.is_some());
            std::mem::forget(cd);
            i += 1;
        }
        std::mem::forget(key);
    }

    // @harness id=C13 tier=quick unwind=8 timeout=1800 fs=4096
    // @desc for accepted parameters the chain built by the REAL HeContext::new is a doubly linked list of prefix moduli sets with strictly decreasing chain indices ending at 0, key/first/last ids consistent, and every level's precomputed constants equal their definitions (total modulus and bit count, floor(Q/t) and Q mod t in RNS form, (t+1)/2)
    // @bounds ground check (no symbolic input) of the regenerated literal chains: BGV {97,113} t=17 with the special-prime flag (2 levels, key level = first level) and BFV {97,113} t=1009 (plain modulus above the first prime, Q mod t >= q_0)
    // @funcs HeContext::new, HeContext::validate, HeContext::create_next_context_data (through their regenerated literal output)
    // @stubs alloc::sync::Arc::drop_slow -> no-op
    #[kani::proof]
    #[kani::stub(alloc::sync::Arc::drop_slow, crate::verif_v::arc_drop_slow_noop)]
    fn c13_chain_wellformed_ground() {
        let c: bool = kani::any();
        if c { let ctx = lits::ctx_bgv_n2_2p1(); check_chain(&ctx, &[97, 113], 17, 2, 2, true); std::mem::forget(ctx); }
        else { let ctx = lits::ctx_bfv_n2_bigt(); check_chain(&ctx, &[97, 113], 1009, 2, 1, true); std::mem::forget(ctx); }
        kani::cover!(true);
    }

    // @harness id=C13 tier=thorough unwind=8 timeout=3600 fs=4096
    // @desc as c13_chain_wellformed_ground for longer chains: BFV and CKKS {97,113,193} (3 levels, separate key level) and BFV {97,113,193,241} (4 levels)
    // @bounds ground check of the regenerated literal chains (3 and 4 levels; CKKS thresholds and 2^64 increments)
    // @funcs HeContext::new, HeContext::validate, HeContext::create_next_context_data (through their regenerated literal output)
    // @stubs alloc::sync::Arc::drop_slow -> no-op
    #[kani::proof]
    #[kani::stub(alloc::sync::Arc::drop_slow, crate::verif_v::arc_drop_slow_noop)]
    fn c13_chain_wellformed_ground_long() {
        let c: u8 = kani::any();
        match c {
            0 => { let ctx = lits::ctx_bfv_n2(); check_chain(&ctx, &[97, 113, 193], 17, 2, 3, false); std::mem::forget(ctx); }
            1 => { let ctx = lits::ctx_ckks_n2(); check_chain(&ctx, &[97, 113, 193], 0, 2, 3, false); std::mem::forget(ctx); }
            _ => { let ctx = lits::ctx_bfv_n2_4p(); check_chain(&ctx, &[97, 113, 193, 241], 17, 2, 4, false); std::mem::forget(ctx); }
        }
        kani::cover!(true);
    }

    // @harness id=C13 tier=quick unwind=8 timeout=1800 fs=4096
    // @desc parameter identifiers distinguish parameter sets that differ ONLY in the scheme (BFV vs BGV with identical degree, moduli and plain modulus), at every level of the chain -- so a context of one scheme never resolves another scheme's level ids; ids of different levels of one chain are pairwise different and non-zero
    // @bounds ground check on the regenerated literal chains BFV/BGV N=2, q={97,113}, t=17 (2 levels each)
    // @funcs EncryptionParameters::compute_parms_id (through the ids stored by the real constructors)
    // @stubs alloc::sync::Arc::drop_slow -> no-op
    #[kani::proof]
    #[kani::stub(alloc::sync::Arc::drop_slow, crate::verif_v::arc_drop_slow_noop)]
    fn c13_parms_ids_distinguish_schemes() {
        let a = lits::ctx_bfv_n2_2p1();
        let ida = [*chain_at(0).parms_id(), *chain_at(1).parms_id()];
        let b = lits::ctx_bgv_n2_2p1();
        let idb = [*chain_at(0).parms_id(), *chain_at(1).parms_id()];
        let ne = |x: &ParmsID, y: &ParmsID| x[0] != y[0] || x[1] != y[1] || x[2] != y[2] || x[3] != y[3];
        kani::cover!(true);
        assert!(ne(&ida[0], &idb[0]) && ne(&ida[1], &idb[1]) && ne(&ida[0], &idb[1]) && ne(&ida[1], &idb[0]));
        assert!(ne(&ida[0], &ida[1]) && ne(&idb[0], &idb[1]));
        assert!(ne(&ida[0], &PARMS_ID_ZERO) && ne(&ida[1], &PARMS_ID_ZERO) && ne(&idb[0], &PARMS_ID_ZERO));
        std::mem::forget(a); std::mem::forget(b);
    }

    #[cfg(test)] include!("/verif/.build/playback/context_v.rs");
}
