//! Verification support compiled into heathcliff::context as child module `verif_v`.
//!
//! * direct constructors for `ContextData` / `HeContext` (used by generated literal tables),
//! * the `get_context_data` stub used under `-Z stubbing` (HashMap lookups are out of CBMC's reach),
//! * the native literal generator (`verif_gen_contexts`), which runs the REAL `HeContext::new`
//!   for every parameter set and prints the resulting state as Rust expressions.
#![allow(unused, dead_code, non_snake_case, static_mut_refs)]
use super::*;
use crate::verif_v::Lit;
use crate::Modulus;

#[allow(clippy::too_many_arguments)]
pub(crate) fn mk_context_data(
    parms: EncryptionParameters, qualifiers: EncryptionParameterQualifiers, rns_tool: Option<RNSTool>,
    small_ntt_tables: Vec<NTTTables>, plain_ntt_tables: Option<NTTTables>, galois_tool: Option<GaloisTool>,
    total_coeff_modulus: Vec<u64>, total_coeff_modulus_bit_count: usize,
    coeff_div_plain_modulus: Vec<MultiplyU64ModOperand>, plain_upper_half_threshold: u64,
    plain_upper_half_increment: Vec<u64>, upper_half_threshold: Vec<u64>, upper_half_increment: Vec<u64>,
    coeff_modulus_mod_plain_modulus: u64, next_context_data: Option<Arc<ContextData>>, chain_index: usize,
) -> ContextData {
    ContextData {
        parms, qualifiers, rns_tool, small_ntt_tables, plain_ntt_tables, galois_tool, total_coeff_modulus,
        total_coeff_modulus_bit_count, coeff_div_plain_modulus, plain_upper_half_threshold,
        plain_upper_half_increment, upper_half_threshold, upper_half_increment, coeff_modulus_mod_plain_modulus,
        prev_context_data: None, next_context_data, chain_index,
    }
}

/// Same linking step as `HeContext::create_next_context_data` performs on the previous node.
pub(crate) fn set_prev(node: &Arc<ContextData>, prev: &Arc<ContextData>) {
    unsafe {
        let ptr = Arc::as_ptr(node).cast_mut();
        (*ptr).prev_context_data = Some(Arc::downgrade(prev));
    }
}

/// Chain served by the `get_context_data` stub (Kani is single threaded).
pub(crate) static mut CHAIN: Vec<Arc<ContextData>> = Vec::new();

pub(crate) fn mk_hecontext(
    key_parms_id: ParmsID, first_parms_id: ParmsID, last_parms_id: ParmsID, chain: Vec<Arc<ContextData>>,
    sec_level: SecurityLevel, using_keyswitching: bool, random_generator_factory: BlakeRNGFactory,
) -> HeContext {
    #[cfg(all(kani, not(test)))]
    let context_data_map = {
        // RandomState::new() reads OS entropy (unsupported foreign call): build the hasher state directly.
        let rs: std::collections::hash_map::RandomState = unsafe { std::mem::transmute([0u64; 2]) };
        unsafe { CHAIN = chain; }
        HashMap::with_hasher(rs)
    };
    #[cfg(not(all(kani, not(test))))]
    let context_data_map = {
        let mut m = HashMap::new();
        for c in chain.iter() { m.insert(*c.parms_id(), c.clone()); }
        m
    };
    HeContext { key_parms_id, first_parms_id, last_parms_id, context_data_map, sec_level, using_keyswitching, random_generator_factory }
}

#[inline(never)]
fn pid_eq(a: &ParmsID, b: &ParmsID) -> bool { a[0] == b[0] && a[1] == b[1] && a[2] == b[2] && a[3] == b[3] }

/// `-Z stubbing` replacement of `HeContext::get_context_data`: loop-free search over the literal chain
/// (chains of at most 5 levels). CUT: the HashMap lookup itself is outside every claim.
pub(crate) fn get_context_data_stub(_this: &HeContext, parms_id: &ParmsID) -> Option<Arc<ContextData>> {
    unsafe {
        let n = CHAIN.len();
        if n > 0 && pid_eq(CHAIN[0].parms_id(), parms_id) { return Some(CHAIN[0].clone()); }
        if n > 1 && pid_eq(CHAIN[1].parms_id(), parms_id) { return Some(CHAIN[1].clone()); }
        if n > 2 && pid_eq(CHAIN[2].parms_id(), parms_id) { return Some(CHAIN[2].clone()); }
        if n > 3 && pid_eq(CHAIN[3].parms_id(), parms_id) { return Some(CHAIN[3].clone()); }
        if n > 4 && pid_eq(CHAIN[4].parms_id(), parms_id) { return Some(CHAIN[4].clone()); }
        None
    }
}

pub(crate) fn chain_len() -> usize { unsafe { CHAIN.len() } }
pub(crate) fn chain_at(i: usize) -> Arc<ContextData> { unsafe { CHAIN[i].clone() } }

// ---------------------------------------------------------------------------------------------
// native literal generator
// ---------------------------------------------------------------------------------------------
#[cfg(not(kani))]
pub(crate) mod gen {
    use super::*;

    fn node_lit(c: &ContextData, next: Option<&str>) -> String {
        let parts: Vec<String> = vec![
            c.parms.lit(), c.qualifiers.lit(), c.rns_tool.lit(), c.small_ntt_tables.lit(), c.plain_ntt_tables.lit(),
            c.galois_tool.lit(), c.total_coeff_modulus.lit(), c.total_coeff_modulus_bit_count.lit(),
            c.coeff_div_plain_modulus.lit(), c.plain_upper_half_threshold.lit(), c.plain_upper_half_increment.lit(),
            c.upper_half_threshold.lit(), c.upper_half_increment.lit(), c.coeff_modulus_mod_plain_modulus.lit(),
            match next { None => "None".to_string(), Some(n) => format!("Some({}.clone())", n) },
            c.chain_index.lit(),
        ];
        format!("crate::context::verif_v::mk_context_data(\n{})", parts.join(",\n"))
    }

    /// Emits `pub(crate) fn ctx_<name>() -> Arc<HeContext>` rebuilding `ctx` (chain order: key level first).
    pub(crate) fn ctx_fn(name: &str, ctx: &HeContext) -> String {
        let mut nodes: Vec<Arc<ContextData>> = vec![];
        let mut cur = ctx.key_context_data();
        while let Some(c) = cur { cur = c.next_context_data(); nodes.push(c); }
        assert_eq!(nodes.len(), ctx.context_data_map.len(), "chain walk must reach every level");
        let mut s = format!("pub(crate) fn ctx_{}() -> std::sync::Arc<crate::HeContext> {{\n", name);
        for i in (0..nodes.len()).rev() {
            let next = if i + 1 < nodes.len() { Some(format!("n{}", i + 1)) } else { None };
            // GaloisTool permutation tables are emitted as found (lazily grown cache)
            s += &format!("let n{} = std::sync::Arc::new({});\n", i, node_lit(&nodes[i], next.as_deref()));
        }
        for i in 1..nodes.len() {
            if nodes[i].prev_context_data().is_some() { s += &format!("crate::context::verif_v::set_prev(&n{}, &n{});\n", i, i - 1); }
        }
        let chain = (0..nodes.len()).map(|i| format!("n{}", i)).collect::<Vec<_>>().join(", ");
        s += &format!("std::sync::Arc::new(crate::context::verif_v::mk_hecontext({}, {}, {}, vec![{}], {}, {}, {}))\n}}\n",
            ctx.key_parms_id.lit(), ctx.first_parms_id.lit(), ctx.last_parms_id.lit(), chain,
            ctx.sec_level.lit(), ctx.using_keyswitching.lit(),
            // the factory's entropy path is an environment stub in every harness; emit a seeded factory
            "crate::util::verif_v::random_generator::mk_rng_factory(false, crate::util::PRNGSeed([0u8; 64]))");
        s
    }

    pub(crate) struct PSet { pub name: &'static str, pub scheme: SchemeType, pub n: usize, pub q: &'static [u64], pub t: u64, pub expand: bool, pub special: bool }

    /// Parameter sets. All use SecurityLevel::None (tiny parameters). The internal auxiliary primes
    /// (B, m_sk, gamma: 61 bits; m_tilde = 2^32) are whatever the real `RNSTool::new` picks.
    pub(crate) const SETS: &[PSet] = &[
        // N=2
        PSet { name: "bfv_n2_q13_t3",      scheme: SchemeType::BFV,  n: 2, q: &[13],        t: 3,  expand: true, special: false },
        PSet { name: "bfv_n2_q13_17_29_t5", scheme: SchemeType::BFV, n: 2, q: &[13, 17, 29], t: 5, expand: true, special: false },
        PSet { name: "bgv_n2_q13_17_29_t5", scheme: SchemeType::BGV, n: 2, q: &[13, 17, 29], t: 5, expand: true, special: false },
        PSet { name: "ckks_n2_q13_17_29",   scheme: SchemeType::CKKS, n: 2, q: &[13, 17, 29], t: 0, expand: true, special: false },
        PSet { name: "bfv_n2_q5_13_t17",    scheme: SchemeType::BFV, n: 2, q: &[5, 13, 29],  t: 17, expand: true, special: false }, // t > some q_i: no fast plain lift
        // N=4
        PSet { name: "bfv_n4_q17_t16",     scheme: SchemeType::BFV,  n: 4, q: &[17],        t: 16, expand: true, special: false },
        PSet { name: "bfv_n4_q41_97_t17",  scheme: SchemeType::BFV,  n: 4, q: &[41, 97, 113], t: 17, expand: true, special: false },
        PSet { name: "bgv_n4_q41_97_t17",  scheme: SchemeType::BGV,  n: 4, q: &[41, 97, 113], t: 17, expand: true, special: false },
        PSet { name: "ckks_n4_q41_97",     scheme: SchemeType::CKKS, n: 4, q: &[41, 97, 113], t: 0, expand: true, special: false },
        // N=8 (batching t=17)
        PSet { name: "bfv_n8_q97_193_t17", scheme: SchemeType::BFV,  n: 8, q: &[97, 193, 257], t: 17, expand: true, special: false },
    ];

    pub(crate) fn build(p: &PSet) -> Arc<HeContext> {
        let moduli: Vec<Modulus> = p.q.iter().map(|&x| Modulus::new(x)).collect();
        let mut parms = EncryptionParameters::new(p.scheme).set_poly_modulus_degree(p.n).set_coeff_modulus(&moduli);
        if p.t != 0 { parms = parms.set_plain_modulus(&Modulus::new(p.t)); }
        parms = parms.set_use_special_prime_for_encryption(p.special);
        let ctx = HeContext::new(parms, p.expand, SecurityLevel::None);
        assert!(ctx.parameters_set(), "parameter set {} rejected: {:?}", p.name, ctx.first_context_data().unwrap().qualifiers().parameter_error);
        ctx
    }

    #[cfg(test)]
    #[test]
    fn verif_gen_contexts() {
        let mut all = String::from("// GENERATED by verif_gen_contexts from the real constructors; do not edit.\n");
        let mut summary = vec![];
        for p in SETS {
            let ctx = build(p);
            all += &ctx_fn(p.name, &ctx);
            summary.push(format!("{{\"set\":\"{}\",\"levels\":{},\"keyswitching\":{}}}", p.name, ctx.context_data_map.len(), ctx.using_keyswitching));
        }
        crate::verif_v::write_gen("ctx.rs", &all);
        crate::verif_v::write_gen("ctx.json", &format!("[{}]", summary.join(",")));
    }
}
