//! Verification harnesses compiled into heathcliff::util::galois as child module `verif_v`.
#![allow(unused, dead_code, non_snake_case)]
use super::*;
use crate::verif_v::{Lit, verif_struct};

verif_struct!(GaloisTool, "crate::util::verif_v::galois::mk_galois_tool", mk_galois_tool, {
    coeff_count_power: usize, coeff_count: usize, permutation_tables: RwLock<Vec<Vec<usize>>> });

#[cfg(kani)]
mod proofs {
    use super::*;
    use crate::modulus::verif_v::mk_modulus;

    fn tool(logn: usize) -> GaloisTool {
        // same state as GaloisTool::new(logn) (checked: c04_new_state)
        let n = 1usize << logn;
        mk_galois_tool(logn, n, RwLock::new(vec![vec![]; n]))
    }

    fn check_apply<const N: usize>(logn: usize) {
        let t = tool(logn);
        let q = 17u64; let m = mk_modulus(q, true);
        let g: usize = kani::any(); kani::assume(g < 2 * N && g & 1 == 1);
        let a: [u8; N] = kani::any();
        let mut v = [0u64; N]; let mut k = 0; while k < N { kani::assume((a[k] as u64) < q); v[k] = a[k] as u64; k += 1; }
        let mut r = [0u64; N];
        t.apply(&v, g, &m, &mut r);
        let i: usize = kani::any(); kani::assume(i < N);
        // X^i -> X^(i*g) = (-1)^floor(i*g/N) X^(i*g mod N)
        let e = i * g; let idx = e % N; let neg = (e / N) & 1 == 1;
        kani::cover!(neg && v[i] != 0);
        assert!(r[idx] == if neg { (q - v[i]) % q } else { v[i] });
    }

    // @harness id=C04 tier=quick unwind=18 timeout=900
    // @desc GaloisTool::apply(p, g) = p(X^g) in Z_q[X]/(X^N+1): coefficient i moves to index i*g mod N with sign (-1)^floor(i*g/N), for every odd g < 2N and every coefficient vector (full-length operand)
    // @bounds N in {2, 4, 8, 16} (symbolic choice, concrete per case), q = 17, g symbolic odd, all coefficient vectors, index i symbolic
    // @funcs GaloisTool::apply, negate_u64_mod
    #[kani::proof]
    fn c04_apply_is_substitution() {
        let c: u8 = kani::any();
        match c { 0 => check_apply::<2>(1), 1 => check_apply::<4>(2), 2 => check_apply::<8>(3), _ => check_apply::<16>(4) }
    }

    // @harness id=C04 tier=quick unwind=10 timeout=600 kf=galois_apply_short_operand
    // @desc GaloisTool::apply with an operand SHORTER than N treats the missing coefficients as zero (the code's `else {0}` branch) and does not read past the operand
    // @bounds N=4, q=17, operand length 1..3 (concrete per case), odd g symbolic
    // @funcs GaloisTool::apply
    #[kani::proof]
    fn c04_apply_short_operand() {
        let t = tool(2);
        let q = 17u64; let m = mk_modulus(q, true);
        let g: usize = kani::any(); kani::assume(g < 8 && g & 1 == 1);
        let a: [u8; 4] = kani::any();
        kani::assume(a[0] < 17 && a[1] < 17 && a[2] < 17);
        let v = [a[0] as u64, a[1] as u64, a[2] as u64, 0];
        let mut r = [0u64; 4]; let mut rs = [0u64; 4];
        t.apply(&v, g, &m, &mut r);
        let c: u8 = kani::any();
        match c { 0 => { kani::assume(a[1] == 0 && a[2] == 0); t.apply(&v[..1], g, &m, &mut rs) }
                  1 => { kani::assume(a[2] == 0); t.apply(&v[..2], g, &m, &mut rs) }
                  _ => t.apply(&v[..3], g, &m, &mut rs) }
        kani::cover!(true);
        assert!(rs[0] == r[0] && rs[1] == r[1] && rs[2] == r[2] && rs[3] == r[3]);
    }

    fn check_table<const N: usize>(logn: usize) {
        let t = tool(logn);
        let g: usize = kani::any(); kani::assume(g < 2 * N && g & 1 == 1);
        let tab = t.generate_table_ntt(g);
        assert!(tab.len() == N);
        let i: usize = kani::any(); kani::assume(i < N);
        // NTT slot i holds the evaluation at psi^(e_i), e_i = 2*bitrev(i)+1.  p(X^g) at psi^(e_i) = p at psi^(g*e_i):
        // the table must point at the slot j with e_j = g*e_i mod 2N
        let e_i = 2 * crate::util::reverse_bits_u32(i as u32, logn) as usize + 1;
        let j = tab[i]; assert!(j < N);
        let e_j = 2 * crate::util::reverse_bits_u32(j as u32, logn) as usize + 1;
        kani::cover!(j != i);
        assert!(e_j == (g * e_i) % (2 * N));
        // apply_ntt uses (and caches) exactly this table
        let a: [u64; N] = kani::any();
        let mut r = [0u64; N];
        t.apply_ntt(&a, g, &mut r);
        assert!(r[i] == a[j]);
        let cached = t.permutation_tables.read().unwrap();
        assert!(cached[(g - 1) / 2].len() == N && cached[(g - 1) / 2][i] == j);
    }

    // @harness id=C04 tier=quick unwind=18 timeout=900
    // @desc generate_table_ntt(g)[i] is the NTT slot whose evaluation point is the g-th power of slot i's point (so apply_ntt is the NTT-domain image of X -> X^g); apply_ntt permutes by that table and caches it at index (g-1)/2
    // @bounds N in {4, 8, 16} (concrete per case), every odd g < 2N, slot index symbolic, operand words arbitrary u64
    // @funcs GaloisTool::generate_table_ntt, GaloisTool::apply_ntt, GaloisTool::get_index_from_elt, reverse_bits_u32
    #[kani::proof]
    fn c04_ntt_table_is_substitution() {
        let c: u8 = kani::any();
        match c { 0 => check_table::<4>(2), 1 => check_table::<8>(3), _ => check_table::<16>(4) }
    }

    fn pow3(e: usize, m: usize) -> usize { let mut r = 1usize; let mut i = 0; while i < e { r = (r * 3) % m; i += 1; } r }

    fn check_steps(logn: usize) {
        let t = tool(logn);
        let n = 1usize << logn; let m = 2 * n;
        let s: isize = kani::any(); kani::assume(s > -((n / 2) as isize) && s < (n / 2) as isize);
        let e = t.get_elt_from_step(s);
        kani::cover!(s < 0);
        if s == 0 { assert!(e == m - 1); }
        else if s > 0 { assert!(e == pow3(s as usize, m)); }
        else { assert!(e == pow3(n / 2 - (-s) as usize, m)); assert!((e * pow3((-s) as usize, m)) % m == 1); }
        assert!(e & 1 == 1 && e < m);
    }

    // @harness id=C04 tier=quick unwind=34 timeout=900
    // @desc get_elt_from_step(s) = 3^s mod 2N for 0 < s < N/2, the inverse power 3^(N/2-|s|) for negative s (so step s followed by -s is the identity), and 2N-1 for s = 0
    // @bounds N in {4, 8, 16, 32} (concrete per case), every step with |s| < N/2
    // @funcs GaloisTool::get_elt_from_step
    #[kani::proof]
    fn c04_elt_from_step() {
        let c: u8 = kani::any();
        match c { 0 => check_steps(2), 1 => check_steps(3), 2 => check_steps(4), _ => check_steps(5) }
    }

    fn check_elts_all(logn: usize) {
        let t = tool(logn);
        let n = 1usize << logn; let m = 2 * n;
        let v = t.get_elts_all();
        assert!(v.len() == 2 * (logn - 1) + 1 && v[0] == m - 1);
        let k: usize = kani::any(); kani::assume(k < logn - 1);
        // entries 1+2k, 2+2k: 3^(2^k) and its inverse
        let p = pow3(1usize << k, m);
        kani::cover!(k > 0);
        assert!(v[1 + 2 * k] == p);
        assert!((v[2 + 2 * k] * p) % m == 1);
    }

    // @harness id=C04 tier=quick unwind=34 timeout=900
    // @desc get_elts_all() = [2N-1, 3^(2^k), 3^-(2^k) for k = 0..log2(N)-2]: exactly the default key set that NAF-composed rotations rely on
    // @bounds N in {4, 8, 16, 32}
    // @funcs GaloisTool::get_elts_all, try_invert_u64_mod_u64
    #[kani::proof]
    fn c04_elts_all() {
        let c: u8 = kani::any();
        match c { 0 => check_elts_all(2), 1 => check_elts_all(3), 2 => check_elts_all(4), _ => check_elts_all(5) }
    }

    // @harness id=C04 tier=quick unwind=10 timeout=300
    // @desc GaloisTool::new(k) produces coeff_count = 2^k and 2^k empty permutation tables (the state the other C04 harnesses start from)
    // @bounds k in {1, 2, 3}
    // @funcs GaloisTool::new
    #[kani::proof]
    fn c04_new_state() {
        fn one(k: usize) {
            let t = GaloisTool::new(k);
            assert!(t.coeff_count_power == k && t.coeff_count == 1 << k);
            let tabs = t.permutation_tables.read().unwrap();
            kani::cover!(k == 3);
            assert!(tabs.len() == 1 << k && tabs[0].is_empty() && tabs[(1 << k) - 1].is_empty());
        }
        one(1); one(2); one(3);
    }

    #[cfg(test)] include!("/verif/.build/playback/util_galois_v.rs");
}
