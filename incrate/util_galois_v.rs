//! Verification harnesses compiled into heathcliff::util::galois as child module `verif_v`.
#![allow(unused, dead_code, non_snake_case)]
use super::*;
use crate::verif_v::{Lit, verif_struct};

verif_struct!(GaloisTool, "crate::util::verif_v::galois::mk_galois_tool", mk_galois_tool, {
    coeff_count_power: usize, coeff_count: usize, permutation_tables: RwLock<Vec<Vec<usize>>> });
