//! Verification harnesses compiled into heathcliff::serialize as child module `verif_v`.
#![allow(unused, dead_code, non_snake_case)]
