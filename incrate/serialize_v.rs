//! Verification harnesses compiled into heathcliff::serialize as child module `verif_v`.
#![allow(unused, dead_code, non_snake_case)]
use super::*;
use std::io::{Read, Write};

/// Fixed-capacity in-memory sink (no heap growth): accepts everything.
pub(crate) struct Sink { pub buf: [u8; 128], pub len: usize, pub calls: usize }
impl Sink { pub fn new() -> Self { Sink { buf: [0; 128], len: 0, calls: 0 } } }
impl Write for Sink {
    fn write(&mut self, data: &[u8]) -> std::io::Result<usize> {
        self.calls += 1;
        let mut i = 0;
        while i < data.len() { self.buf[self.len + i] = data[i]; i += 1; }
        self.len += data.len();
        Ok(data.len())
    }
    fn flush(&mut self) -> std::io::Result<()> { Ok(()) }
}

/// Writer that obeys the std::io::Write contract but accepts at most `limit` (>= 1) bytes per call and
/// optionally fails (returns Err) at call number `fail_at`.
pub(crate) struct ShortWriter { pub buf: [u8; 128], pub len: usize, pub calls: usize, pub limit: usize, pub fail_at: usize }
impl Write for ShortWriter {
    fn write(&mut self, data: &[u8]) -> std::io::Result<usize> {
        if self.calls == self.fail_at { return Err(std::io::Error::from(std::io::ErrorKind::BrokenPipe)); }
        self.calls += 1;
        let n = if data.len() < self.limit { data.len() } else { self.limit };
        let mut i = 0;
        while i < n { self.buf[self.len + i] = data[i]; i += 1; }
        self.len += n;
        Ok(n)
    }
    fn flush(&mut self) -> std::io::Result<()> { Ok(()) }
}

/// Reader over a byte array prefix (ends early at `end`).
pub(crate) struct Src { pub buf: [u8; 128], pub pos: usize, pub end: usize }
impl Read for Src {
    fn read(&mut self, out: &mut [u8]) -> std::io::Result<usize> {
        let avail = self.end - self.pos;
        let n = if out.len() < avail { out.len() } else { avail };
        let mut i = 0;
        while i < n { out[i] = self.buf[self.pos + i]; i += 1; }
        self.pos += n;
        Ok(n)
    }
}

#[cfg(kani)]
mod proofs {
    use super::*;

    // @harness id=C14 tier=quick unwind=10 timeout=900
    // @desc scalar codecs round-trip exactly: u64, usize, u8, bool, f64 (bit pattern), ParmsID; serialized_size == bytes written == bytes consumed; two values written back-to-back are both recovered
    // @bounds all values (f64: every bit pattern, compared by bits); in-memory sink/source of 128 bytes
    // @funcs <u64|usize|u8|bool|f64|ParmsID as Serializable>::{serialize,deserialize,serialized_size}
    #[kani::proof]
    fn c14_scalars_roundtrip() {
        let a: u64 = kani::any(); let b: usize = kani::any(); let c: u8 = kani::any(); let d: bool = kani::any();
        let fb: u64 = kani::any(); let f = f64::from_bits(fb);
        let pid: ParmsID = kani::any();
        let mut s = Sink::new();
        let n1 = a.serialize(&mut s).unwrap(); let n2 = b.serialize(&mut s).unwrap(); let n3 = c.serialize(&mut s).unwrap();
        let n4 = d.serialize(&mut s).unwrap(); let n5 = f.serialize(&mut s).unwrap(); let n6 = pid.serialize(&mut s).unwrap();
        assert!(n1 == 8 && n1 == a.serialized_size() && n2 == b.serialized_size() && n3 == 1 && n3 == c.serialized_size());
        assert!(n4 == d.serialized_size() && n5 == f.serialized_size() && n6 == pid.serialized_size() && n6 == 32);
        assert!(s.len == n1 + n2 + n3 + n4 + n5 + n6);
        let mut r = Src { buf: s.buf, pos: 0, end: s.len };
        let a2 = u64::deserialize(&mut r).unwrap(); let b2 = usize::deserialize(&mut r).unwrap(); let c2 = u8::deserialize(&mut r).unwrap();
        let d2 = bool::deserialize(&mut r).unwrap(); let f2 = f64::deserialize(&mut r).unwrap(); let p2 = ParmsID::deserialize(&mut r).unwrap();
        kani::cover!(d && c > 1);
        assert!(a2 == a && b2 == b && c2 == c && d2 == d && f2.to_bits() == fb);
        assert!(p2[0] == pid[0] && p2[1] == pid[1] && p2[2] == pid[2] && p2[3] == pid[3]);
        assert!(r.pos == s.len);
    }

    fn limited_case<const LIMIT: usize>() {
        let v: u64 = kani::any();
        kani::assume(LIMIT == 8 || v < 1u64 << (8 * LIMIT));
        let mut s = Sink::new();
        let n = write_u64_limited(&mut s, v, LIMIT).unwrap();
        assert!(n == LIMIT && s.len == LIMIT);
        let mut r = Src { buf: s.buf, pos: 0, end: s.len };
        let v2 = read_u64_limited(&mut r, LIMIT).unwrap();
        kani::cover!(LIMIT < 2 || v >> (8 * (LIMIT - 1)) != 0);
        assert!(v2 == v && r.pos == LIMIT);
    }

    // @harness id=C14 tier=quick unwind=10 timeout=900
    // @desc byte-width packing: get_u64_limit(q) is the exact number of bytes needed for values up to q (so every residue below q fits); write_u64_limited/read_u64_limited round-trip every value that fits the limit, for every limit 0..8, writing/consuming exactly `limit` bytes
    // @bounds q any u64 >= 1; value any u64 < 2^(8*limit); limit 0..8 (each a separate concrete case)
    // @funcs get_u64_limit, write_u64_limited, read_u64_limited
    #[kani::proof]
    fn c14_u64_limited() {
        let c: u8 = kani::any();
        match c {
            0 => limited_case::<0>(), 1 => limited_case::<1>(), 2 => limited_case::<2>(), 3 => limited_case::<3>(), 4 => limited_case::<4>(),
            5 => limited_case::<5>(), 6 => limited_case::<6>(), 7 => limited_case::<7>(), 8 => limited_case::<8>(),
            _ => {
                let q: u64 = kani::any(); kani::assume(q >= 1);
                let lim = get_u64_limit(q);
                assert!(lim >= 1 && lim <= 8);
                if lim < 8 { assert!(q < 1u64 << (8 * lim)); }
                assert!(lim == 1 || q >= 1u64 << (8 * (lim - 1)));
            }
        }
    }

    fn vec_case(k: usize) {
        let d: [u64; 3] = kani::any();
        let v: Vec<u64> = match k { 0 => Vec::new(), 1 => vec![d[0]], 2 => vec![d[0], d[1]], _ => vec![d[0], d[1], d[2]] };
        let mut s = Sink::new();
        let n = v.serialize(&mut s).unwrap();
        assert!(n == v.serialized_size() && n == 8 + 8 * k && s.len == n);
        // followed by another object in the same stream
        let tail: u64 = kani::any();
        tail.serialize(&mut s).unwrap();
        let mut r = Src { buf: s.buf, pos: 0, end: s.len };
        let v2 = Vec::<u64>::deserialize(&mut r).unwrap();
        assert!(v2.len() == k && r.pos == n);
        assert!((k < 1 || v2[0] == d[0]) && (k < 2 || v2[1] == d[1]) && (k < 3 || v2[2] == d[2]));
        assert!(u64::deserialize(&mut r).unwrap() == tail);
    }

    // @harness id=C14 tier=quick unwind=10 timeout=900
    // @desc Vec<u64> round-trips for lengths 0..3, announced size = written = consumed, and a following object in the same stream is recovered independently; Plaintext (parms id, data, scale) round-trips field by field
    // @bounds vector lengths 0..3 (concrete per case), all element values; Plaintext with 0..2 coefficients, any parms id, any scale bit pattern
    // @funcs <Vec<u64> as Serializable>::*, <Plaintext as Serializable>::*
    #[kani::proof]
    fn c14_vec_plaintext_roundtrip() {
        let c: u8 = kani::any();
        match c { 0 => vec_case(0), 1 => vec_case(1), 2 => vec_case(2), 3 => vec_case(3), 4 => plain_case(1), _ => plain_case(2) }
    }
    fn plain_case(k: usize) {
        let d: [u64; 2] = kani::any(); let pid: ParmsID = kani::any(); let sb: u64 = kani::any();
        let data = if k == 2 { vec![d[0], d[1]] } else { vec![d[0]] };
        let p = crate::text::verif_v::mk_plaintext(k, data, pid, f64::from_bits(sb));
        let mut s = Sink::new();
        let n = p.serialize(&mut s).unwrap();
        assert!(n == p.serialized_size() && s.len == n);
        let mut r = Src { buf: s.buf, pos: 0, end: s.len };
        let p2 = Plaintext::deserialize(&mut r).unwrap();
        kani::cover!(k == 2);
        assert!(r.pos == n && p2.coeff_count() == k && p2.data().len() == k);
        assert!(p2.data()[0] == d[0] && (k < 2 || p2.data()[1] == d[1]) && p2.scale().to_bits() == sb);
        assert!(p2.parms_id()[0] == pid[0] && p2.parms_id()[3] == pid[3]);
    }

    // ------------------------------------------------------------------ C15: I/O faults
    fn short_writer() -> ShortWriter {
        let limit: usize = kani::any(); kani::assume(limit >= 1 && limit <= 8);
        let fail_at: usize = kani::any();
        ShortWriter { buf: [0; 128], len: 0, calls: 0, limit, fail_at }
    }

    // @harness id=C15 tier=quick unwind=12 timeout=900 kf=scalar_short_write
    // @desc serializing a scalar (u64, usize, f64, u8, bool) to a writer that accepts 1..8 bytes per call and may fail at any call either returns Err or leaves the COMPLETE encoding in the sink
    // @bounds all scalar values; per-call acceptance limit symbolic in 1..8; failure point any call index (or never)
    // @funcs <u64|usize|f64|u8|bool as Serializable>::serialize
    #[kani::proof]
    fn c15_scalar_short_writes() {
        let c: u8 = kani::any();
        let mut w = short_writer();
        let v: u64 = kani::any();
        let (res, full_len) = match c {
            0 => (v.serialize(&mut w), 8), 1 => ((v as usize).serialize(&mut w), 8), 2 => (f64::from_bits(v).serialize(&mut w), 8),
            3 => ((v as u8).serialize(&mut w), 1), _ => ((v & 1 == 1).serialize(&mut w), 1) };
        kani::cover!(w.limit < 8 && res.is_ok());
        if res.is_ok() {
            assert!(w.len == full_len);
            let le = v.to_le_bytes();
            if c <= 2 { assert!(w.buf[0] == le[0] && w.buf[3] == le[3] && w.buf[7] == le[7]); }
        }
    }

    // @harness id=C15 tier=quick unwind=12 timeout=900 kf=scalar_truncated_read
    // @desc deserializing a scalar from a stream that ends early (any offset before the end of its encoding) returns Err instead of panicking or fabricating a value
    // @bounds u64/usize/f64 (8-byte encodings, truncation offset 0..7), u8/bool (offset 0); stream contents arbitrary
    // @funcs <u64|usize|f64|u8|bool as Serializable>::deserialize
    #[kani::proof]
    fn c15_scalar_truncated_reads() {
        let c: u8 = kani::any();
        let buf: [u8; 128] = kani::any();
        let end: usize = kani::any();
        kani::assume(if c <= 2 { end < 8 } else { end == 0 });
        let mut r = Src { buf, pos: 0, end };
        let is_err = match c { 0 => u64::deserialize(&mut r).is_err(), 1 => usize::deserialize(&mut r).is_err(), 2 => f64::deserialize(&mut r).is_err(),
            3 => u8::deserialize(&mut r).is_err(), _ => bool::deserialize(&mut r).is_err() };
        kani::cover!(end == 7);
        assert!(is_err);
    }

    // ------------------------------------------------------------------ C14 with a context
    use crate::verif_v::lits;
    use crate::text::verif_v::mk_ciphertext;
    fn same_ct(a: &Ciphertext, b: &Ciphertext, len: usize) -> bool {
        let mut ok = a.size() == b.size() && a.coeff_modulus_size() == b.coeff_modulus_size() && a.poly_modulus_degree() == b.poly_modulus_degree()
            && a.is_ntt_form() == b.is_ntt_form() && a.correction_factor() == b.correction_factor() && a.scale().to_bits() == b.scale().to_bits()
            && a.data().len() == len && b.data().len() == len;
        let pa = a.parms_id(); let pb = b.parms_id();
        ok = ok && pa[0] == pb[0] && pa[1] == pb[1] && pa[2] == pb[2] && pa[3] == pb[3];
        if ok { let i: usize = kani::any(); kani::assume(i < len); ok = a.data()[i] == b.data()[i]; }
        ok
    }

    // @harness id=C14 tier=quick unwind=16 timeout=2400 fs=4096
    // @desc a BFV ciphertext round-trips exactly through the compact format (residues packed in 1, 2 and 3 bytes according to their prime); announced size == bytes written == bytes consumed; a second object written after it in the same stream is recovered independently
    // @bounds BFV N=2, q={97, 12289, 65537} (byte widths 1/2/3), size 2; all canonical residues except the seed-flag slot (coefficient 0 of c1 mod q0, concrete 42: seeded ciphertexts need the Blake2 PRNG expansion, outside reach); NTT flag symbolic
    // @funcs <Ciphertext as SerializableWithHeContext>::{serialize,deserialize,serialized_size}, write_u64_limited, read_u64_limited, get_u64_limit
    // @stubs HeContext::get_context_data -> linear search over the literal chain; alloc::sync::Arc::drop_slow -> no-op
    #[kani::proof]
    #[kani::stub(crate::context::HeContext::get_context_data, crate::context::verif_v::get_context_data_stub)]
    #[kani::stub(alloc::sync::Arc::drop_slow, crate::verif_v::arc_drop_slow_noop)]
    fn c14_ciphertext_roundtrip_bfv_bytewidths() { bytes_case(false) }

    // @harness id=C14 tier=quick unwind=16 timeout=2400 fs=4096 mem=24
    // @desc a BFV ciphertext round-trips exactly through the FULL format (8 bytes per residue); announced size == bytes written == bytes consumed; a following object is recovered independently
    // @bounds BFV N=2, q={97, 113}, size 2; all canonical residues except the seed-flag slot (concrete 42); coefficient form
    // @funcs Ciphertext::{serialize_full,deserialize_full,serialized_full_size}
    // @stubs HeContext::get_context_data -> linear search over the literal chain; alloc::sync::Arc::drop_slow -> no-op
    #[kani::proof]
    #[kani::stub(crate::context::HeContext::get_context_data, crate::context::verif_v::get_context_data_stub)]
    #[kani::stub(alloc::sync::Arc::drop_slow, crate::verif_v::arc_drop_slow_noop)]
    fn c14_ciphertext_roundtrip_full_format() {
        let ctx = lits::ctx_bfv_n2_2p1();
        let pid = *ctx.first_parms_id();
        let r: [u8; 8] = kani::any();
        let mut d = [0u64; 8]; let mut i = 0;
        while i < 8 { kani::assume((r[i] as u64) < if (i / 2) % 2 == 0 { 97 } else { 113 }); d[i] = r[i] as u64; i += 1; }
        d[4] = 42;                                  // seed-flag slot concrete (see bytes_case)
        let ct = mk_ciphertext(2, 2, 2, d.to_vec(), pid, 1.0, false, 1);
        let mut s = Sink::new();
        let n = ct.serialize_full(&ctx, &mut s).unwrap();
        let tail: u64 = kani::any(); tail.serialize(&mut s).unwrap();
        kani::cover!(d[7] == 112);
        assert!(n == ct.serialized_full_size(&ctx) && s.len == n + 8);
        let mut rd = Src { buf: s.buf, pos: 0, end: s.len };
        let back = Ciphertext::deserialize_full(&ctx, &mut rd).unwrap();
        assert!(rd.pos == n);
        assert!(same_ct(&ct, &back, 8));
        assert!(u64::deserialize(&mut rd).unwrap() == tail);
        std::mem::forget(ctx);
    }

    fn bytes_case(full: bool) {
        let ctx = lits::ctx_bfv_n2_bytes();
        let pid = *ctx.first_parms_id();
        let qs = [97u32, 12289, 65537];
        let r: [u32; 12] = kani::any();
        let mut d = [0u64; 12]; let mut i = 0;
        while i < 12 { kani::assume(r[i] < qs[(i / 2) % 3]); d[i] = r[i] as u64; i += 1; }
        d[6] = 42;                                  // slot compared with CIPHERTEXT_SEED_FLAG: concrete, so that `contains_seed()` is decided during symbolic execution
        let ntt: bool = kani::any();
        let ct = mk_ciphertext(2, 3, 2, d.to_vec(), pid, 1.0, ntt, 1);
        let mut s = Sink::new();
        let n = if full { ct.serialize_full(&ctx, &mut s).unwrap() } else { ct.serialize(&ctx, &mut s).unwrap() };
        let announced = if full { ct.serialized_full_size(&ctx) } else { ct.serialized_size(&ctx) };
        let tail: u64 = kani::any(); tail.serialize(&mut s).unwrap();
        kani::cover!(d[5] > 70000 - 5000);
        assert!(n == announced && s.len == n + 8);
        if !full { assert!(n == 32 + 8 + 1 + 1 + 2 * (2 * 1 + 2 * 2 + 2 * 3)); }
        let mut rd = Src { buf: s.buf, pos: 0, end: s.len };
        let back = if full { Ciphertext::deserialize_full(&ctx, &mut rd).unwrap() } else { <Ciphertext as SerializableWithHeContext>::deserialize(&ctx, &mut rd).unwrap() };
        assert!(rd.pos == n);
        assert!(same_ct(&ct, &back, 12));
        assert!(u64::deserialize(&mut rd).unwrap() == tail);
        std::mem::forget(ctx);
    }

    // @harness id=C14 tier=quick unwind=16 timeout=3000 fs=4096
    // @desc CKKS and BGV ciphertexts round-trip through the compact format including their scheme-specific field (scale bit pattern resp. correction factor); size 3 ciphertexts keep all polynomials
    // @bounds N=2, q={97,113}; CKKS (any finite scale bit pattern) or BGV (any correction factor) chosen symbolically; size 3; all canonical residues
    // @funcs <Ciphertext as SerializableWithHeContext>::{serialize,deserialize,serialized_size}
    // @stubs HeContext::get_context_data -> linear search over the literal chain; alloc::sync::Arc::drop_slow -> no-op
    #[kani::proof]
    #[kani::stub(crate::context::HeContext::get_context_data, crate::context::verif_v::get_context_data_stub)]
    #[kani::stub(alloc::sync::Arc::drop_slow, crate::verif_v::arc_drop_slow_noop)]
    fn c14_ciphertext_roundtrip_ckks_bgv() {
        let ckks: bool = kani::any();
        if ckks { let ctx = lits::ctx_ckks_n2_2p1(); scheme_case(&ctx, true); std::mem::forget(ctx); }
        else { let ctx = lits::ctx_bgv_n2_2p1(); scheme_case(&ctx, false); std::mem::forget(ctx); }
    }
    fn scheme_case(ctx: &std::sync::Arc<HeContext>, ckks: bool) {
        let pid = *ctx.first_parms_id();
        let r: [u8; 12] = kani::any();
        let mut d = [0u64; 12]; let mut i = 0;
        while i < 12 { kani::assume((r[i] as u64) < if (i / 2) % 2 == 0 { 97 } else { 113 }); d[i] = r[i] as u64; i += 1; }
        let sb: u64 = kani::any(); let cf: u64 = kani::any();
        let ct = if ckks { mk_ciphertext(3, 2, 2, d.to_vec(), pid, f64::from_bits(sb), true, 1) } else { mk_ciphertext(3, 2, 2, d.to_vec(), pid, 1.0, true, cf) };
        let mut s = Sink::new();
        let n = ct.serialize(ctx, &mut s).unwrap();
        kani::cover!(true);
        assert!(n == ct.serialized_size(ctx) && s.len == n && n == 32 + 8 + 1 + 8 + 1 + 12);
        let mut rd = Src { buf: s.buf, pos: 0, end: s.len };
        let back = <Ciphertext as SerializableWithHeContext>::deserialize(ctx, &mut rd).unwrap();
        assert!(rd.pos == n);
        assert!(same_ct(&ct, &back, 12));
    }

    // @harness id=C14 tier=quick unwind=16 timeout=2400 fs=4096
    // @desc the selected-terms format restores exactly the selected coefficients of the first polynomial (others zero) and ALL coefficients of the remaining polynomials; announced size == bytes written == bytes consumed -- term subset {0}
    // @bounds BFV N=2, q={97,113} coefficient form, size 2; term subset {0}; all canonical residues except the seed-flag slot (concrete 42)
    // @funcs Ciphertext::{serialize_terms,deserialize_terms,serialized_terms_size}
    // @stubs HeContext::get_context_data -> linear search over the literal chain; alloc::sync::Arc::drop_slow -> no-op
    #[kani::proof]
    #[kani::stub(crate::context::HeContext::get_context_data, crate::context::verif_v::get_context_data_stub)]
    #[kani::stub(alloc::sync::Arc::drop_slow, crate::verif_v::arc_drop_slow_noop)]
    fn c14_ciphertext_terms_roundtrip_t0() { let ctx = lits::ctx_bfv_n2_2p1(); terms_case(&ctx, &[0]); std::mem::forget(ctx); }

    // @harness id=C14 tier=quick unwind=16 timeout=2400 fs=4096
    // @desc the selected-terms format restores exactly the selected coefficients of the first polynomial (others zero) and ALL coefficients of the remaining polynomials; announced size == bytes written == bytes consumed -- term subset {1}
    // @bounds BFV N=2, q={97,113} coefficient form, size 2; term subset {1}; all canonical residues except the seed-flag slot (concrete 42)
    // @funcs Ciphertext::{serialize_terms,deserialize_terms,serialized_terms_size}
    // @stubs HeContext::get_context_data -> linear search over the literal chain; alloc::sync::Arc::drop_slow -> no-op
    #[kani::proof]
    #[kani::stub(crate::context::HeContext::get_context_data, crate::context::verif_v::get_context_data_stub)]
    #[kani::stub(alloc::sync::Arc::drop_slow, crate::verif_v::arc_drop_slow_noop)]
    fn c14_ciphertext_terms_roundtrip_t1() { let ctx = lits::ctx_bfv_n2_2p1(); terms_case(&ctx, &[1]); std::mem::forget(ctx); }

    // @harness id=C14 tier=quick unwind=16 timeout=2400 fs=4096
    // @desc the selected-terms format restores exactly the selected coefficients of the first polynomial (others zero) and ALL coefficients of the remaining polynomials; announced size == bytes written == bytes consumed -- term subset {0,1}
    // @bounds BFV N=2, q={97,113} coefficient form, size 2; term subset {0,1}; all canonical residues except the seed-flag slot (concrete 42)
    // @funcs Ciphertext::{serialize_terms,deserialize_terms,serialized_terms_size}
    // @stubs HeContext::get_context_data -> linear search over the literal chain; alloc::sync::Arc::drop_slow -> no-op
    #[kani::proof]
    #[kani::stub(crate::context::HeContext::get_context_data, crate::context::verif_v::get_context_data_stub)]
    #[kani::stub(alloc::sync::Arc::drop_slow, crate::verif_v::arc_drop_slow_noop)]
    fn c14_ciphertext_terms_roundtrip_t01() { let ctx = lits::ctx_bfv_n2_2p1(); terms_case(&ctx, &[0, 1]); std::mem::forget(ctx); }

    fn terms_case(ctx: &std::sync::Arc<HeContext>, terms: &[usize]) {
        let pid = *ctx.first_parms_id();
        let r: [u8; 8] = kani::any();
        let mut d = [0u64; 8]; let mut i = 0;
        while i < 8 { kani::assume((r[i] as u64) < if (i / 2) % 2 == 0 { 97 } else { 113 }); d[i] = r[i] as u64; i += 1; }
        d[4] = 42;                                  // seed-flag slot concrete (see bytes_case)
        let ct = mk_ciphertext(2, 2, 2, d.to_vec(), pid, 1.0, false, 1);
        let mut s = Sink::new();
        let n = ct.serialize_terms(ctx, terms, &mut s).unwrap();
        assert!(n == ct.serialized_terms_size(ctx, terms.len()) && s.len == n);
        let mut rd = Src { buf: s.buf, pos: 0, end: s.len };
        let back = Ciphertext::deserialize_terms(ctx, terms, &mut rd).unwrap();
        assert!(rd.pos == n && back.size() == 2 && back.data().len() == 8 && !back.is_ntt_form());
        let i: usize = kani::any(); kani::assume(i < 8);
        let selected = i >= 4 || (terms.len() == 2) || (i % 2 == terms[0]);
        kani::cover!(terms.len() == 2 || (!selected && d[i] != 0));
        assert!(back.data()[i] == if selected { d[i] } else { 0 });
    }

    // @harness id=C14 tier=quick unwind=18 timeout=2400 fs=4096 mem=24
    // @desc a SEED-COMPRESSED ciphertext in the selected-terms format: the stream carries the selected coefficients of c0 followed by exactly the 8 seed words stored after the flag word of c1 (c1[1..9]), and the announced size equals the bytes written -- so that the reader re-expands c1 from the same seed (the PRNG expansion itself is outside reach)
    // @bounds BFV N=8, q={97,113}, size 2, coefficient form, c1 = (flag, 8 arbitrary seed words, rest 0); c0 arbitrary canonical residues at the selected term, terms {3}
    // @funcs Ciphertext::{serialize_terms,serialized_terms_size,contains_seed}
    // @stubs HeContext::get_context_data -> linear search over the literal chain; alloc::sync::Arc::drop_slow -> no-op
    #[kani::proof]
    #[kani::stub(crate::context::HeContext::get_context_data, crate::context::verif_v::get_context_data_stub)]
    #[kani::stub(alloc::sync::Arc::drop_slow, crate::verif_v::arc_drop_slow_noop)]
    fn c14_seeded_terms_stream() {
        let ctx = lits::ctx_bfv_n8_2p1();
        let pid = *ctx.first_parms_id();
        let seed: [u64; 8] = kani::any();
        let x: [u8; 2] = kani::any(); kani::assume(x[0] < 97 && x[1] < 113);
        let mut d = vec![0u64; 32];
        d[3] = x[0] as u64; d[8 + 3] = x[1] as u64;
        d[16] = crate::text::CIPHERTEXT_SEED_FLAG;
        let mut i = 0; while i < 8 { d[17 + i] = seed[i]; i += 1; }
        let ct = mk_ciphertext(2, 2, 8, d, pid, 1.0, false, 1);
        let mut s = Sink::new();
        let n = ct.serialize_terms(&ctx, &[3], &mut s).unwrap();
        assert!(n == ct.serialized_terms_size(&ctx, 1) && s.len == n && n == 32 + 8 + 1 + 1 + 2 + 64);
        assert!(s.buf[41] == 1);                                    // seed marker byte
        assert!(s.buf[42] == x[0] && s.buf[43] == x[1]);
        let k: usize = kani::any(); kani::assume(k < 8);
        let mut w = 0u64; let mut b = 0; while b < 8 { w |= (s.buf[44 + 8 * k + b] as u64) << (8 * b); b += 1; }
        kani::cover!(seed[0] != seed[7]);
        assert!(w == seed[k]);
        std::mem::forget(ctx);
    }

    // @harness id=C14 tier=quick unwind=16 timeout=1200 fs=4096
    // @desc ciphertext containers (1-d, 2-d, 3-d) that are EMPTY or hold empty sub-containers: in the compact and the selected-terms format the announced size equals the bytes written and the bytes consumed, the restored container has the same shape, and a following object in the same stream is recovered independently
    // @bounds Cipher1d [], Cipher2d [] and [[],[]], Cipher3d [] and [[[]]] ; tail object = arbitrary u64; term list {0}
    // @funcs Cipher1d/Cipher2d/Cipher3d::{serialize,deserialize,serialized_size,serialize_terms,deserialize_terms,serialized_terms_size}
    // @stubs HeContext::get_context_data -> linear search over the literal chain; alloc::sync::Arc::drop_slow -> no-op
    #[kani::proof]
    #[kani::stub(crate::context::HeContext::get_context_data, crate::context::verif_v::get_context_data_stub)]
    #[kani::stub(alloc::sync::Arc::drop_slow, crate::verif_v::arc_drop_slow_noop)]
    fn c14_empty_containers() {
        use crate::app::matmul::{Cipher1d, Cipher2d};
        use crate::app::matmul::cipher3d::Cipher3d;
        let ctx = lits::ctx_bfv_n2_1p();
        let tail: u64 = kani::any();
        macro_rules! both_formats { ($mk:expr, $ty:ty, $shape:expr) => {{
            // compact
            let c = $mk; let mut s = Sink::new();
            let n = c.serialize(&ctx, &mut s).unwrap(); tail.serialize(&mut s).unwrap();
            assert!(n == c.serialized_size(&ctx) && s.len == n + 8);
            let mut rd = Src { buf: s.buf, pos: 0, end: s.len };
            let back = <$ty as SerializableWithHeContext>::deserialize(&ctx, &mut rd).unwrap();
            assert!(rd.pos == n && $shape(&back) && u64::deserialize(&mut rd).unwrap() == tail);
            // selected terms
            let mut s = Sink::new();
            let n = c.serialize_terms(&ctx, &[0], &mut s).unwrap(); tail.serialize(&mut s).unwrap();
            assert!(n == c.serialized_terms_size(&ctx, 1) && s.len == n + 8);
            let mut rd = Src { buf: s.buf, pos: 0, end: s.len };
            let back = <$ty>::deserialize_terms(&ctx, &[0], &mut rd).unwrap();
            assert!(rd.pos == n && $shape(&back) && u64::deserialize(&mut rd).unwrap() == tail);
        }}}
        both_formats!(Cipher1d::new(vec![]), Cipher1d, |b: &Cipher1d| b.len() == 0);
        both_formats!(Cipher2d::new_1ds(vec![]), Cipher2d, |b: &Cipher2d| b.data.len() == 0);
        both_formats!(Cipher2d::new_1ds(vec![Cipher1d::new(vec![]), Cipher1d::new(vec![])]), Cipher2d, |b: &Cipher2d| b.data.len() == 2 && b.data[0].len() == 0 && b.data[1].len() == 0);
        both_formats!(Cipher3d::new_2ds(vec![]), Cipher3d, |b: &Cipher3d| b.data.len() == 0);
        both_formats!(Cipher3d::new_2ds(vec![Cipher2d::new_1ds(vec![Cipher1d::new(vec![])])]), Cipher3d, |b: &Cipher3d| b.data.len() == 1 && b.data[0].data.len() == 1 && b.data[0].data[0].len() == 0);
        kani::cover!(true);
        std::mem::forget(ctx);
    }

    // @harness id=C14 tier=quick unwind=16 timeout=2400 fs=4096
    // @desc a 1-d container holding one ciphertext round-trips in the compact and the selected-terms format (length prefix + element), sizes announced == written == consumed, following object recovered
    // @bounds BFV N=2, q={97}, size-2 ciphertext, all canonical residues except the seed-flag slot (concrete 42); terms {0}
    // @funcs Cipher1d::{serialize,deserialize,serialized_size,serialize_terms,deserialize_terms,serialized_terms_size}, Ciphertext serializers
    // @stubs HeContext::get_context_data -> linear search over the literal chain; alloc::sync::Arc::drop_slow -> no-op
    #[kani::proof]
    #[kani::stub(crate::context::HeContext::get_context_data, crate::context::verif_v::get_context_data_stub)]
    #[kani::stub(alloc::sync::Arc::drop_slow, crate::verif_v::arc_drop_slow_noop)]
    fn c14_container_single_element() {
        use crate::app::matmul::Cipher1d;
        let ctx = lits::ctx_bfv_n2_1p();
        let pid = *ctx.first_parms_id();
        let r: [u8; 4] = kani::any(); kani::assume(r[0] < 97 && r[1] < 97 && r[3] < 97);
        let d = [r[0] as u64, r[1] as u64, 42, r[3] as u64];
        let c = Cipher1d::new(vec![mk_ciphertext(2, 1, 2, d.to_vec(), pid, 1.0, false, 1)]);
        let tail: u64 = kani::any();
        let mut s = Sink::new();
        let n = c.serialize(&ctx, &mut s).unwrap(); tail.serialize(&mut s).unwrap();
        assert!(n == c.serialized_size(&ctx) && s.len == n + 8);
        let mut rd = Src { buf: s.buf, pos: 0, end: s.len };
        let back = <Cipher1d as SerializableWithHeContext>::deserialize(&ctx, &mut rd).unwrap();
        assert!(rd.pos == n && back.len() == 1 && u64::deserialize(&mut rd).unwrap() == tail);
        let b0 = back.iter().next().unwrap();
        assert!(b0.data().len() == 4 && b0.data()[0] == d[0] && b0.data()[1] == d[1] && b0.data()[2] == 42 && b0.data()[3] == d[3]);
        let mut s = Sink::new();
        let n = c.serialize_terms(&ctx, &[0], &mut s).unwrap(); tail.serialize(&mut s).unwrap();
        assert!(n == c.serialized_terms_size(&ctx, 1) && s.len == n + 8);
        let mut rd = Src { buf: s.buf, pos: 0, end: s.len };
        let back = Cipher1d::deserialize_terms(&ctx, &[0], &mut rd).unwrap();
        assert!(rd.pos == n && back.len() == 1 && u64::deserialize(&mut rd).unwrap() == tail);
        let b0 = back.iter().next().unwrap();
        kani::cover!(d[1] != 0);
        assert!(b0.data().len() == 4 && b0.data()[0] == d[0] && b0.data()[1] == 0 && b0.data()[2] == 42 && b0.data()[3] == d[3]);
        std::mem::forget(ctx);
    }

    // @harness id=C15 tier=quick unwind=24 timeout=3000 fs=4096 mem=24
    // @desc serializing a ciphertext (compact format) to a writer that accepts 1..8 bytes per call and may FAIL at any call either returns Err or leaves the complete encoding in the sink -- an Ok result is never reported for a sink that did not receive every byte
    // @bounds BFV N=2, q={97}, size 2 (46-byte encoding); per-call limit 3: failure at call 7 (inside the identifier) or never, each a concrete run; all canonical residues (harness _b: failure at the last call, limit 8)
    // @funcs <Ciphertext as SerializableWithHeContext>::serialize and every scalar writer below it
    // @stubs HeContext::get_context_data -> linear search over the literal chain; alloc::sync::Arc::drop_slow -> no-op
    #[kani::proof]
    #[kani::stub(crate::context::HeContext::get_context_data, crate::context::verif_v::get_context_data_stub)]
    #[kani::stub(alloc::sync::Arc::drop_slow, crate::verif_v::arc_drop_slow_noop)]
    fn c15_ciphertext_faulty_writer_a() {
        let ctx = lits::ctx_bfv_n2_1p();
        let r: [u8; 4] = kani::any(); kani::assume(r[0] < 97 && r[1] < 97 && r[2] < 97 && r[3] < 97);
        // the failing call index is enumerated (concrete per run: a symbolic index forks an error exit with io::Error drop glue at every
        // call and exhausts memory; so did 35, and then 10, indices in one harness -- 1.1 GB of formula per run): inside the identifier, the last call, the size field, and never
        faulty_case(&ctx, r, 3, 7); faulty_case(&ctx, r, 3, usize::MAX);
        std::mem::forget(ctx);
    }

    // @harness id=C15 tier=quick unwind=24 timeout=3000 fs=4096 mem=24
    // @desc serializing a ciphertext (compact format) to a writer that accepts 1..8 bytes per call and may FAIL at any call either returns Err or leaves the complete encoding in the sink -- an Ok result is never reported for a sink that did not receive every byte
    // @bounds BFV N=2, q={97}, size 2 (46-byte encoding); per-call limit 3 with failure at the last call (index 20 of 21 calls); per-call limit 8 with failure at call 4 (the size field) or never, each a concrete run; all canonical residues
    // @funcs <Ciphertext as SerializableWithHeContext>::serialize and every scalar writer below it
    // @stubs HeContext::get_context_data -> linear search over the literal chain; alloc::sync::Arc::drop_slow -> no-op
    #[kani::proof]
    #[kani::stub(crate::context::HeContext::get_context_data, crate::context::verif_v::get_context_data_stub)]
    #[kani::stub(alloc::sync::Arc::drop_slow, crate::verif_v::arc_drop_slow_noop)]
    fn c15_ciphertext_faulty_writer_b() {
        let ctx = lits::ctx_bfv_n2_1p();
        let r: [u8; 4] = kani::any(); kani::assume(r[0] < 97 && r[1] < 97 && r[2] < 97 && r[3] < 97);
        // the failing call index is enumerated (concrete per run: a symbolic index forks an error exit with io::Error drop glue at every
        // call and exhausts memory; so did 35, and then 10, indices in one harness -- 1.1 GB of formula per run): inside the identifier, the last call, the size field, and never
        faulty_case(&ctx, r, 3, 20); faulty_case(&ctx, r, 8, 4); faulty_case(&ctx, r, 8, usize::MAX);
        std::mem::forget(ctx);
    }
    fn faulty_case(ctx: &std::sync::Arc<HeContext>, r: [u8; 4], limit: usize, fail_at: usize) {
        let pid = *ctx.first_parms_id();
        let ct = mk_ciphertext(2, 1, 2, vec![r[0] as u64, r[1] as u64, 42 /* seed-flag slot concrete */, r[3] as u64], pid, 1.0, false, 1);
        let mut w = ShortWriter { buf: [0; 128], len: 0, calls: 0, limit, fail_at };
        let res = ct.serialize(ctx, &mut w);
        let full = ct.serialized_size(ctx);
        if fail_at == 7 || fail_at == 20 { kani::cover!(res.is_err()); }
        if fail_at == usize::MAX { kani::cover!(res.is_ok()); }
        if res.is_ok() {
            assert!(w.len == full && full == 32 + 8 + 1 + 1 + 4);
            assert!(w.buf[42] == r[0] && w.buf[45] == r[3]);
        } else {
            assert!(fail_at != usize::MAX);                                  // a writer that never fails never yields Err
        }
        std::mem::forget(res);
    }

    #[cfg(test)] include!("/verif/.build/playback/serialize_v.rs");
}
