//! Verification harnesses compiled into heathcliff::evaluator as child module `verif_v`.
#![allow(unused, dead_code, non_snake_case)]
use super::*;
use crate::text::verif_v::{mk_ciphertext, mk_plaintext};

#[cfg(kani)]
mod proofs {
    use super::*;

    #[kani::proof]
    #[kani::unwind(6)]
    fn r1_a_build_forget() {
        let ctx = crate::verif_v::lits::ctx_bfv_n2_q13_t3();
        assert!(ctx.using_keyswitching() == false);
        std::mem::forget(ctx);
    }
    #[kani::proof]
    #[kani::unwind(6)]
    #[kani::stub(crate::context::HeContext::get_context_data, crate::context::verif_v::get_context_data_stub)]
    fn r1_b_lookup_forget() {
        let ctx = crate::verif_v::lits::ctx_bfv_n2_q13_t3();
        let cd = ctx.first_context_data().unwrap();
        assert!(cd.chain_index() == 0);
        std::mem::forget(cd);
        std::mem::forget(ctx);
    }
    #[kani::proof]
    #[kani::unwind(6)]
    #[kani::stub(crate::context::HeContext::get_context_data, crate::context::verif_v::get_context_data_stub)]
    #[kani::stub(alloc::sync::Arc::drop_slow, crate::verif_v::arc_drop_slow_noop)]
    fn r1_c_lookup_drop() {
        let ctx = crate::verif_v::lits::ctx_bfv_n2_q13_t3();
        let cd = ctx.first_context_data().unwrap();
        assert!(cd.chain_index() == 0);
        drop(cd);
        std::mem::forget(ctx);
    }
    #[kani::proof]
    #[kani::unwind(6)]
    #[kani::stub(crate::context::HeContext::get_context_data, crate::context::verif_v::get_context_data_stub)]
    #[kani::stub(alloc::sync::Arc::drop_slow, crate::verif_v::arc_drop_slow_noop)]
    fn r1_negate() {
        let ctx = crate::verif_v::lits::ctx_bfv_n2_q13_t3();
        let ev = Evaluator { context: ctx.clone() };
        let pid = *ctx.first_parms_id();
        let d: [u8; 4] = kani::any();
        kani::assume(d[0] < 13 && d[1] < 13 && d[2] < 13 && d[3] < 13);
        let mut ct = mk_ciphertext(2, 1, 2, vec![d[0] as u64, d[1] as u64, d[2] as u64, d[3] as u64], pid, 1.0, false, 1);
        ev.negate_inplace(&mut ct);
        assert!(ct.data()[0] == (13 - d[0] as u64) % 13);
        assert!(ct.data()[3] == (13 - d[3] as u64) % 13);
        std::mem::forget(ev); std::mem::forget(ctx); std::mem::forget(ct);
    }

    #[cfg(test)] include!("/verif/.build/playback/evaluator_v.rs");
}
