//! Verification harnesses compiled into heathcliff::evaluator as child module `verif_v`.
#![allow(unused, dead_code, non_snake_case)]
use super::*;
use crate::text::verif_v::{mk_ciphertext, mk_plaintext};
use crate::valcheck::ValCheck;

pub(crate) fn mk_evaluator(context: Arc<HeContext>) -> Evaluator { Evaluator { context } }

#[cfg(kani)]
mod proofs {
    use super::*;
    use crate::verif_v::lits;

    pub(crate) const Q1: u64 = 97;
    /// symbolic canonical ciphertext data for N=2, ONE prime (97): SIZE polynomials = SIZE*2 residues
    pub(crate) fn sym1<const L: usize>() -> [u64; L] {
        let a: [u8; L] = kani::any();
        let mut v = [0u64; L]; let mut i = 0;
        while i < L { kani::assume((a[i] as u64) < Q1); v[i] = a[i] as u64; i += 1; }
        v
    }
    pub(crate) fn ct1<const L: usize>(d: &[u64; L], pid: ParmsID, ntt: bool, cf: u64, scale: f64) -> Ciphertext {
        mk_ciphertext(L / 2, 1, 2, d.to_vec(), pid, scale, ntt, cf)
    }

    fn addsub_case<const L1: usize, const L2: usize>(ev: &Evaluator, pid: ParmsID, ntt: bool) {
        let a = sym1::<L1>(); let b = sym1::<L2>();
        let c1 = ct1(&a, pid, ntt, 1, 1.0); let c2 = ct1(&b, pid, ntt, 1, 1.0);
        let lmax = if L1 > L2 { L1 } else { L2 };
        let p: usize = kani::any(); kani::assume(p < lmax);
        let q = Q1;
        let av = if p < L1 { a[p] } else { 0 }; let bv = if p < L2 { b[p] } else { 0 };
        let sub: bool = kani::any();
        let mut r = c1.clone();
        if sub { ev.sub_inplace(&mut r, &c2); } else { ev.add_inplace(&mut r, &c2); }
        kani::cover!(sub && bv != 0 && (L2 <= L1 || p >= L1));
        assert!(r.size() == lmax / 2 && r.data().len() == lmax && r.coeff_modulus_size() == 1 && r.poly_modulus_degree() == 2);
        assert!(*r.parms_id() == pid && r.is_ntt_form() == ntt && r.correction_factor() == 1 && r.scale() == 1.0);
        let e = if sub { (av + q - bv) % q } else { (av + bv) % q };
        assert!(r.data()[p] == e);
        assert!(c2.data()[if p < L2 { p } else { 0 }] == b[if p < L2 { p } else { 0 }]);
    }

    // @harness id=C02 tier=thorough unwind=14 timeout=1500 fs=4096 
    // @desc Evaluator::add_inplace / sub_inplace on BFV ciphertexts of sizes (2,2): every residue of the result is a+b resp. a-b of the zero-extended operands (so phase_out = phase_1 +- phase_2 for every secret key), size = max, level/form/scale/correction factor preserved, second operand unchanged
    // @bounds BFV N=2, q={97}, t=3 (literal context of the real HeContext::new); all canonical operand residues; coefficient or NTT representation symbolic; add or sub symbolic; one residue position checked symbolically
    // @funcs Evaluator::translate_inplace, Evaluator::add_inplace, Evaluator::sub_inplace, Evaluator::check_ciphertext, Ciphertext::is_valid_for, Ciphertext::resize, polysmallmod::add_inplace_ps, polysmallmod::sub_inplace_ps
    // @stubs HeContext::get_context_data -> linear search over the literal chain (HashMap lookup outside the claim); alloc::sync::Arc::drop_slow -> no-op (memory reclamation outside the claim)
    #[kani::proof]
    #[kani::stub(crate::context::HeContext::get_context_data, crate::context::verif_v::get_context_data_stub)]
    #[kani::stub(alloc::sync::Arc::drop_slow, crate::verif_v::arc_drop_slow_noop)]
    fn c02_add_sub_sizes_2_2() {
        let ctx = lits::ctx_bfv_n2_1p();
        let ev = mk_evaluator(ctx.clone());
        let pid = *ctx.first_parms_id();
        addsub_case::<4, 4>(&ev, pid, kani::any());
        std::mem::forget(ev); std::mem::forget(ctx);
    }

    // @harness id=C02 tier=quick unwind=14 timeout=1500 fs=4096 kf=sub_larger_second_operand
    // @desc Evaluator::add_inplace / sub_inplace on BFV ciphertexts of sizes (2,3): every residue of the result is a+b resp. a-b of the zero-extended operands (so phase_out = phase_1 +- phase_2 for every secret key), size = max, level/form/scale/correction factor preserved, second operand unchanged
    // @bounds BFV N=2, q={97}, t=3 (literal context of the real HeContext::new); all canonical operand residues; coefficient or NTT representation symbolic; add or sub symbolic; one residue position checked symbolically
    // @funcs Evaluator::translate_inplace, Evaluator::add_inplace, Evaluator::sub_inplace, Evaluator::check_ciphertext, Ciphertext::is_valid_for, Ciphertext::resize, polysmallmod::add_inplace_ps, polysmallmod::sub_inplace_ps
    // @stubs HeContext::get_context_data -> linear search over the literal chain (HashMap lookup outside the claim); alloc::sync::Arc::drop_slow -> no-op (memory reclamation outside the claim)
    #[kani::proof]
    #[kani::stub(crate::context::HeContext::get_context_data, crate::context::verif_v::get_context_data_stub)]
    #[kani::stub(alloc::sync::Arc::drop_slow, crate::verif_v::arc_drop_slow_noop)]
    fn c02_add_sub_sizes_2_3() {
        let ctx = lits::ctx_bfv_n2_1p();
        let ev = mk_evaluator(ctx.clone());
        let pid = *ctx.first_parms_id();
        addsub_case::<4, 6>(&ev, pid, kani::any());
        std::mem::forget(ev); std::mem::forget(ctx);
    }

    // @harness id=C02 tier=quick unwind=14 timeout=1500 fs=4096 
    // @desc Evaluator::add_inplace / sub_inplace on BFV ciphertexts of sizes (3,2): every residue of the result is a+b resp. a-b of the zero-extended operands (so phase_out = phase_1 +- phase_2 for every secret key), size = max, level/form/scale/correction factor preserved, second operand unchanged
    // @bounds BFV N=2, q={97}, t=3 (literal context of the real HeContext::new); all canonical operand residues; coefficient or NTT representation symbolic; add or sub symbolic; one residue position checked symbolically
    // @funcs Evaluator::translate_inplace, Evaluator::add_inplace, Evaluator::sub_inplace, Evaluator::check_ciphertext, Ciphertext::is_valid_for, Ciphertext::resize, polysmallmod::add_inplace_ps, polysmallmod::sub_inplace_ps
    // @stubs HeContext::get_context_data -> linear search over the literal chain (HashMap lookup outside the claim); alloc::sync::Arc::drop_slow -> no-op (memory reclamation outside the claim)
    #[kani::proof]
    #[kani::stub(crate::context::HeContext::get_context_data, crate::context::verif_v::get_context_data_stub)]
    #[kani::stub(alloc::sync::Arc::drop_slow, crate::verif_v::arc_drop_slow_noop)]
    fn c02_add_sub_sizes_3_2() {
        let ctx = lits::ctx_bfv_n2_1p();
        let ev = mk_evaluator(ctx.clone());
        let pid = *ctx.first_parms_id();
        addsub_case::<6, 4>(&ev, pid, kani::any());
        std::mem::forget(ev); std::mem::forget(ctx);
    }

    // @harness id=C02 tier=thorough unwind=14 timeout=1500 fs=4096 
    // @desc Evaluator::add_inplace / sub_inplace on BFV ciphertexts of sizes (3,3): every residue of the result is a+b resp. a-b of the zero-extended operands (so phase_out = phase_1 +- phase_2 for every secret key), size = max, level/form/scale/correction factor preserved, second operand unchanged
    // @bounds BFV N=2, q={97}, t=3 (literal context of the real HeContext::new); all canonical operand residues; coefficient or NTT representation symbolic; add or sub symbolic; one residue position checked symbolically
    // @funcs Evaluator::translate_inplace, Evaluator::add_inplace, Evaluator::sub_inplace, Evaluator::check_ciphertext, Ciphertext::is_valid_for, Ciphertext::resize, polysmallmod::add_inplace_ps, polysmallmod::sub_inplace_ps
    // @stubs HeContext::get_context_data -> linear search over the literal chain (HashMap lookup outside the claim); alloc::sync::Arc::drop_slow -> no-op (memory reclamation outside the claim)
    #[kani::proof]
    #[kani::stub(crate::context::HeContext::get_context_data, crate::context::verif_v::get_context_data_stub)]
    #[kani::stub(alloc::sync::Arc::drop_slow, crate::verif_v::arc_drop_slow_noop)]
    fn c02_add_sub_sizes_3_3() {
        let ctx = lits::ctx_bfv_n2_1p();
        let ev = mk_evaluator(ctx.clone());
        let pid = *ctx.first_parms_id();
        addsub_case::<6, 6>(&ev, pid, kani::any());
        std::mem::forget(ev); std::mem::forget(ctx);
    }

    // @harness id=C02 tier=thorough unwind=14 timeout=1500 fs=4096 kf=sub_larger_second_operand
    // @desc Evaluator::add_inplace / sub_inplace on BFV ciphertexts of sizes (2,4): every residue of the result is a+b resp. a-b of the zero-extended operands (so phase_out = phase_1 +- phase_2 for every secret key), size = max, level/form/scale/correction factor preserved, second operand unchanged
    // @bounds BFV N=2, q={97}, t=3 (literal context of the real HeContext::new); all canonical operand residues; coefficient or NTT representation symbolic; add or sub symbolic; one residue position checked symbolically
    // @funcs Evaluator::translate_inplace, Evaluator::add_inplace, Evaluator::sub_inplace, Evaluator::check_ciphertext, Ciphertext::is_valid_for, Ciphertext::resize, polysmallmod::add_inplace_ps, polysmallmod::sub_inplace_ps
    // @stubs HeContext::get_context_data -> linear search over the literal chain (HashMap lookup outside the claim); alloc::sync::Arc::drop_slow -> no-op (memory reclamation outside the claim)
    #[kani::proof]
    #[kani::stub(crate::context::HeContext::get_context_data, crate::context::verif_v::get_context_data_stub)]
    #[kani::stub(alloc::sync::Arc::drop_slow, crate::verif_v::arc_drop_slow_noop)]
    fn c02_add_sub_sizes_2_4() {
        let ctx = lits::ctx_bfv_n2_1p();
        let ev = mk_evaluator(ctx.clone());
        let pid = *ctx.first_parms_id();
        addsub_case::<4, 8>(&ev, pid, kani::any());
        std::mem::forget(ev); std::mem::forget(ctx);
    }

    // ---------------------------------------------------------------- two-prime helpers (q = {97, 113}, N = 2)
    pub(crate) const QA: [u64; 2] = [97, 113];
    /// symbolic canonical data, N=2, two primes: SIZE polynomials = SIZE*4 residues, layout [poly][modulus][coeff]
    pub(crate) fn sym2<const L: usize>() -> [u64; L] {
        let a: [u8; L] = kani::any();
        let mut v = [0u64; L]; let mut i = 0;
        while i < L { kani::assume((a[i] as u64) < QA[(i / 2) % 2]); v[i] = a[i] as u64; i += 1; }
        v
    }
    pub(crate) fn q2(i: usize) -> u64 { QA[(i / 2) % 2] }
    pub(crate) fn ct2<const L: usize>(d: &[u64; L], pid: ParmsID, ntt: bool, cf: u64, scale: f64) -> Ciphertext {
        mk_ciphertext(L / 4, 2, 2, d.to_vec(), pid, scale, ntt, cf)
    }

    // @harness id=C02 tier=quick unwind=14 timeout=900 fs=4096
    // @desc Evaluator::negate_inplace / negate_new: every residue becomes q - a (0 stays 0), metadata preserved, both forms agree
    // @bounds BFV N=2, q={97}; sizes 2 and 3; all canonical residues; representation symbolic
    // @funcs Evaluator::negate_inplace, Evaluator::negate_new, polysmallmod::negate_inplace_ps
    // @stubs HeContext::get_context_data -> linear search over the literal chain (HashMap lookup outside the claim); alloc::sync::Arc::drop_slow -> no-op (memory reclamation outside the claim)
    #[kani::proof]
    #[kani::stub(crate::context::HeContext::get_context_data, crate::context::verif_v::get_context_data_stub)]
    #[kani::stub(alloc::sync::Arc::drop_slow, crate::verif_v::arc_drop_slow_noop)]
    fn c02_negate() {
        let ctx = lits::ctx_bfv_n2_1p();
        let ev = mk_evaluator(ctx.clone());
        let pid = *ctx.first_parms_id();
        let a = sym1::<6>(); let ntt: bool = kani::any();
        let c = ct1(&a, pid, ntt, 1, 1.0);
        let r = ev.negate_new(&c);
        let mut r2 = c.clone(); ev.negate_inplace(&mut r2);
        let p: usize = kani::any(); kani::assume(p < 6);
        kani::cover!(a[p] != 0);
        assert!(r.data()[p] == (Q1 - a[p]) % Q1 && r2.data()[p] == r.data()[p]);
        assert!(r.size() == 3 && r.is_ntt_form() == ntt && *r.parms_id() == pid && c.data()[p] == a[p]);
        std::mem::forget(ev); std::mem::forget(ctx);
    }

    // @harness id=C02 tier=quick unwind=20 timeout=1800
    // @desc balance_correction_factors(f1, f2, t) returns (f, e1, e2) with e1*f1 = e2*f2 = f (mod t) and e1 invertible mod t -- the relation BGV addition needs so that both operands decrypt under the common factor f
    // @bounds t = 17: all factor pairs 1 <= f1 < 5, 1 <= f2 < 17 (the four harnesses _q1.._q4 together: ALL 256 pairs) (enumerated by the symbolic executor as concrete cases: the Euclid loop with symbolic operands exhausts CBMC's memory); unwind 20 covers the pair loops and the <= 6 Euclid steps
    // @funcs Evaluator::balance_correction_factors, try_invert_u64_mod, multiply_u64_mod, barrett_reduce_u64, gcd
    #[kani::proof]
    fn c02_balance_correction_factors_q1() {
        let t: u64 = 17;
        let m = crate::modulus::verif_v::mk_modulus(t, true);
        let mut f1 = 1u64;
        while f1 < 5 {
            let mut f2 = 1u64;
            while f2 < t {
                let (f, e1, e2) = Evaluator::balance_correction_factors(f1, f2, &m);
                assert!(f < t && e1 < t && e2 < t && f != 0);
                assert!((e1 * f1) % t == f && (e2 * f2) % t == f);
                assert!(crate::util::gcd(e1, t) == 1);
                f2 += 1;
            }
            f1 += 1;
        }
        kani::cover!(true);
    }

    // @harness id=C02 tier=quick unwind=20 timeout=1800
    // @desc balance_correction_factors(f1, f2, t) returns (f, e1, e2) with e1*f1 = e2*f2 = f (mod t) and e1 invertible mod t -- the relation BGV addition needs so that both operands decrypt under the common factor f
    // @bounds t = 17: all factor pairs 5 <= f1 < 9, 1 <= f2 < 17 (the four harnesses _q1.._q4 together: ALL 256 pairs) (enumerated by the symbolic executor as concrete cases: the Euclid loop with symbolic operands exhausts CBMC's memory); unwind 20 covers the pair loops and the <= 6 Euclid steps
    // @funcs Evaluator::balance_correction_factors, try_invert_u64_mod, multiply_u64_mod, barrett_reduce_u64, gcd
    #[kani::proof]
    fn c02_balance_correction_factors_q2() {
        let t: u64 = 17;
        let m = crate::modulus::verif_v::mk_modulus(t, true);
        let mut f1 = 5u64;
        while f1 < 9 {
            let mut f2 = 1u64;
            while f2 < t {
                let (f, e1, e2) = Evaluator::balance_correction_factors(f1, f2, &m);
                assert!(f < t && e1 < t && e2 < t && f != 0);
                assert!((e1 * f1) % t == f && (e2 * f2) % t == f);
                assert!(crate::util::gcd(e1, t) == 1);
                f2 += 1;
            }
            f1 += 1;
        }
        kani::cover!(true);
    }

    // @harness id=C02 tier=quick unwind=20 timeout=1800
    // @desc balance_correction_factors(f1, f2, t) returns (f, e1, e2) with e1*f1 = e2*f2 = f (mod t) and e1 invertible mod t -- the relation BGV addition needs so that both operands decrypt under the common factor f
    // @bounds t = 17: all factor pairs 9 <= f1 < 13, 1 <= f2 < 17 (the four harnesses _q1.._q4 together: ALL 256 pairs) (enumerated by the symbolic executor as concrete cases: the Euclid loop with symbolic operands exhausts CBMC's memory); unwind 20 covers the pair loops and the <= 6 Euclid steps
    // @funcs Evaluator::balance_correction_factors, try_invert_u64_mod, multiply_u64_mod, barrett_reduce_u64, gcd
    #[kani::proof]
    fn c02_balance_correction_factors_q3() {
        let t: u64 = 17;
        let m = crate::modulus::verif_v::mk_modulus(t, true);
        let mut f1 = 9u64;
        while f1 < 13 {
            let mut f2 = 1u64;
            while f2 < t {
                let (f, e1, e2) = Evaluator::balance_correction_factors(f1, f2, &m);
                assert!(f < t && e1 < t && e2 < t && f != 0);
                assert!((e1 * f1) % t == f && (e2 * f2) % t == f);
                assert!(crate::util::gcd(e1, t) == 1);
                f2 += 1;
            }
            f1 += 1;
        }
        kani::cover!(true);
    }

    // @harness id=C02 tier=quick unwind=20 timeout=1800
    // @desc balance_correction_factors(f1, f2, t) returns (f, e1, e2) with e1*f1 = e2*f2 = f (mod t) and e1 invertible mod t -- the relation BGV addition needs so that both operands decrypt under the common factor f
    // @bounds t = 17: all factor pairs 13 <= f1 < 17, 1 <= f2 < 17 (the four harnesses _q1.._q4 together: ALL 256 pairs) (enumerated by the symbolic executor as concrete cases: the Euclid loop with symbolic operands exhausts CBMC's memory); unwind 20 covers the pair loops and the <= 6 Euclid steps
    // @funcs Evaluator::balance_correction_factors, try_invert_u64_mod, multiply_u64_mod, barrett_reduce_u64, gcd
    #[kani::proof]
    fn c02_balance_correction_factors_q4() {
        let t: u64 = 17;
        let m = crate::modulus::verif_v::mk_modulus(t, true);
        let mut f1 = 13u64;
        while f1 < 17 {
            let mut f2 = 1u64;
            while f2 < t {
                let (f, e1, e2) = Evaluator::balance_correction_factors(f1, f2, &m);
                assert!(f < t && e1 < t && e2 < t && f != 0);
                assert!((e1 * f1) % t == f && (e2 * f2) % t == f);
                assert!(crate::util::gcd(e1, t) == 1);
                f2 += 1;
            }
            f1 += 1;
        }
        kani::cover!(true);
    }

    // @harness id=C02 tier=thorough unwind=14 timeout=4500 fs=4096
    // @desc BGV addition/subtraction of ciphertexts carrying DIFFERENT correction factors: result residues = e1*a +- e2*b and result factor f, where (f, e1, e2) = balance_correction_factors(f1, f2); so result/f decrypts to a/f1 +- b/f2
    // @bounds BGV N=2, q={97}, t=17; sizes (2,2); all canonical residues; factor pairs (1,2), (3,5), (16,7) (concrete per case; all 256 pairs of the balancing function itself: c02_balance_correction_factors); NTT form (BGV default)
    // @funcs Evaluator::translate_inplace (factor-balancing branch), polysmallmod::multiply_scalar_inplace_ps, Evaluator::balance_correction_factors
    // @stubs HeContext::get_context_data -> linear search over the literal chain (HashMap lookup outside the claim); alloc::sync::Arc::drop_slow -> no-op (memory reclamation outside the claim)
    #[kani::proof]
    #[kani::stub(crate::context::HeContext::get_context_data, crate::context::verif_v::get_context_data_stub)]
    #[kani::stub(alloc::sync::Arc::drop_slow, crate::verif_v::arc_drop_slow_noop)]
    fn c02_add_bgv_unequal_factors() {
        let ctx = lits::ctx_bgv_n2_1p();
        let ev = mk_evaluator(ctx.clone());
        let pid = *ctx.first_parms_id();
        let fc: u8 = kani::any();
        match fc { 0 => bgv_factor_case(&ev, pid, 1, 2), 1 => bgv_factor_case(&ev, pid, 3, 5), _ => bgv_factor_case(&ev, pid, 16, 7) }
        std::mem::forget(ev); std::mem::forget(ctx);
    }
    fn bgv_factor_case(ev: &Evaluator, pid: ParmsID, f1: u64, f2: u64) {
        let a = sym1::<4>(); let b = sym1::<4>();
        let c1 = ct1(&a, pid, true, f1, 1.0); let c2 = ct1(&b, pid, true, f2, 1.0);
        let sub: bool = kani::any();
        let mut r = c1.clone();
        if sub { ev.sub_inplace(&mut r, &c2); } else { ev.add_inplace(&mut r, &c2); }
        let m = crate::modulus::verif_v::mk_modulus(17, true);
        let (f, e1, e2) = Evaluator::balance_correction_factors(f1, f2, &m);
        let p: usize = kani::any(); kani::assume(p < 4);
        let q = 97u32;
        let ea = (a[p] as u32 * e1 as u32) % q; let eb = (b[p] as u32 * e2 as u32) % q;
        kani::cover!(sub && a[p] != 0);
        assert!(r.correction_factor() == f);
        assert!(r.data()[p] as u32 == if sub { (ea + q - eb) % q } else { (ea + eb) % q });
        assert!(c2.correction_factor() == f2 && c2.data()[p] == b[p]);
    }

    /// tensor product check: output polynomial k, slot p must be sum_{i+j=k} a_i[p]*b_j[p] (NTT form, slot-wise); reference in u32
    fn bgv_mul_case<const L1: usize, const L2: usize>(ev: &Evaluator, pid: ParmsID, square: bool, slots: usize) {
        let a = sym1::<L1>(); let b = sym1::<L2>();
        let c1 = ct1(&a, pid, true, 3, 1.0); let c2 = ct1(&b, pid, true, 5, 1.0);
        let mut r = c1.clone();
        if square { ev.square_inplace(&mut r); } else { ev.multiply_inplace(&mut r, &c2); }
        let (s1, s2) = (L1 / 2, if square { L1 / 2 } else { L2 / 2 });
        // reference composed from the word kernels themselves (decided separately: C08 engine M, c02_poly_kernels_positionwise),
        // so that the solver compares identical circuits and only the evaluator's index/loop structure is in question;
        // every output polynomial k and slot p is checked (concrete indices: no symbolic array selection)
        let m97 = crate::modulus::verif_v::mk_modulus(97, true);
        assert!(r.size() == s1 + s2 - 1 && r.data().len() == (s1 + s2 - 1) * 2 && r.is_ntt_form() && *r.parms_id() == pid);
        let mut k = 0;
        while k < s1 + s2 - 1 {
            let mut p = 0;
            while p < slots {
                let mut e = 0u64; let mut i = 0;
                while i < s1 {
                    if k >= i && k - i < s2 {
                        let bj = if square { a[(k - i) * 2 + p] } else { b[(k - i) * 2 + p] };
                        e = kadd(e, kmul(a[i * 2 + p], bj, &m97), &m97);
                    }
                    i += 1;
                }
                if k == s1 + s2 - 2 && p == slots - 1 { kani::cover!(e != 0); }
                assert!(r.data()[k * 2 + p] == e);
                p += 1;
            }
            k += 1;
        }
        assert!(r.correction_factor() == if square { 9 } else { 15 });
        assert!(c2.size() == L2 / 2 && c2.data()[0] == b[0] && c2.data()[L2 - 1] == b[L2 - 1]);
    }

    // @harness id=C02 tier=thorough unwind=14 timeout=3000 fs=4096
    // @desc BGV multiplication of two size-2 ciphertexts in NTT form: output polynomial k is slot-wise sum_{i+j=k} a_i*b_j (the coefficients of (a0 + a1 s)(b0 + b1 s)), size 3, correction factor = product of the factors mod t, second operand unchanged
    // @bounds BGV N=2, q={97}, t=17; sizes (2,2); all canonical residues; correction factors 3 and 5; output polynomial and slot symbolic
    // @funcs Evaluator::multiply_inplace, Evaluator::bgv_multiply, polysmallmod::dyadic_product_p, polysmallmod::add_inplace_p
    // @stubs HeContext::get_context_data -> linear search over the literal chain (HashMap lookup outside the claim); alloc::sync::Arc::drop_slow -> no-op (memory reclamation outside the claim)
    #[kani::proof]
    #[kani::stub(crate::context::HeContext::get_context_data, crate::context::verif_v::get_context_data_stub)]
    #[kani::stub(alloc::sync::Arc::drop_slow, crate::verif_v::arc_drop_slow_noop)]
    fn c02_bgv_multiply_2x2() {
        let ctx = lits::ctx_bgv_n2_1p();
        let ev = mk_evaluator(ctx.clone());
        bgv_mul_case::<4, 4>(&ev, *ctx.first_parms_id(), false, 2);
        std::mem::forget(ev); std::mem::forget(ctx);
    }

    // @harness id=C02 tier=thorough unwind=14 timeout=3000 fs=4096
    // @desc BGV multiplication with operands of DIFFERENT sizes, larger operand first (3,2): all four output polynomials are the full tensor-product sums
    // @bounds BGV N=2, q={97}, t=17; sizes (3,2); all canonical residues
    // @funcs Evaluator::multiply_inplace, Evaluator::bgv_multiply
    // @stubs HeContext::get_context_data -> linear search over the literal chain (HashMap lookup outside the claim); alloc::sync::Arc::drop_slow -> no-op (memory reclamation outside the claim)
    #[kani::proof]
    #[kani::stub(crate::context::HeContext::get_context_data, crate::context::verif_v::get_context_data_stub)]
    #[kani::stub(alloc::sync::Arc::drop_slow, crate::verif_v::arc_drop_slow_noop)]
    fn c02_bgv_multiply_3x2() {
        let ctx = lits::ctx_bgv_n2_1p();
        let ev = mk_evaluator(ctx.clone());
        bgv_mul_case::<6, 4>(&ev, *ctx.first_parms_id(), false, 2);
        std::mem::forget(ev); std::mem::forget(ctx);
    }

    // @harness id=C02 tier=quick unwind=14 timeout=2400 fs=4096
    // @desc BGV multiplication with operands of different sizes, larger operand first (3,2): all four output polynomials are the full tensor-product sums -- checked in NTT slot 0 (both slots: thorough harness c02_bgv_multiply_3x2), size, level, representation and correction factor as documented
    // @bounds BGV N=2, q={97}, t=17; sizes (3,2); all canonical residues; slot 0 of every output polynomial
    // @funcs Evaluator::multiply_inplace, Evaluator::bgv_multiply, polysmallmod::dyadic_product_p, polysmallmod::add_inplace_p
    // @stubs HeContext::get_context_data -> linear search over the literal chain (HashMap lookup outside the claim); alloc::sync::Arc::drop_slow -> no-op (memory reclamation outside the claim)
    #[kani::proof]
    #[kani::stub(crate::context::HeContext::get_context_data, crate::context::verif_v::get_context_data_stub)]
    #[kani::stub(alloc::sync::Arc::drop_slow, crate::verif_v::arc_drop_slow_noop)]
    fn c02_bgv_multiply_3x2_slot0() {
        let ctx = lits::ctx_bgv_n2_1p();
        let ev = mk_evaluator(ctx.clone());
        bgv_mul_case::<6, 4>(&ev, *ctx.first_parms_id(), false, 1);
        std::mem::forget(ev); std::mem::forget(ctx);
    }

    // @harness id=C02 tier=thorough unwind=14 timeout=3000 fs=4096
    // @desc BGV multiplication with sizes (2,3) and squaring of a size-2 ciphertext (= multiplication by itself)
    // @bounds BGV N=2, q={97}, t=17; case chosen symbolically
    // @funcs Evaluator::multiply_inplace, Evaluator::bgv_multiply, Evaluator::square_inplace, Evaluator::bgv_square
    // @stubs HeContext::get_context_data -> linear search over the literal chain (HashMap lookup outside the claim); alloc::sync::Arc::drop_slow -> no-op (memory reclamation outside the claim)
    #[kani::proof]
    #[kani::stub(crate::context::HeContext::get_context_data, crate::context::verif_v::get_context_data_stub)]
    #[kani::stub(alloc::sync::Arc::drop_slow, crate::verif_v::arc_drop_slow_noop)]
    fn c02_bgv_multiply_2x3_and_square() {
        let ctx = lits::ctx_bgv_n2_1p();
        let ev = mk_evaluator(ctx.clone());
        let c: bool = kani::any();
        if c { bgv_mul_case::<4, 6>(&ev, *ctx.first_parms_id(), false, 2) } else { bgv_mul_case::<4, 4>(&ev, *ctx.first_parms_id(), true, 2) }
        std::mem::forget(ev); std::mem::forget(ctx);
    }

    // @harness id=C03 tier=quick unwind=14 timeout=1800 fs=4096
    // @desc CKKS multiplication: same slot-wise product as BGV and the recorded scale is EXACTLY the IEEE product of the operand scales; ciphertexts not in NTT form are refused elsewhere
    // @bounds CKKS N=2, q={97}; sizes (2,2); all canonical residues; scales 2 and 4 (the bound check goes through f64::log2: exact powers of two, concrete)
    // @funcs Evaluator::multiply_inplace, Evaluator::ckks_multiply, Evaluator::is_scale_within_bounds
    // @stubs HeContext::get_context_data -> linear search over the literal chain (HashMap lookup outside the claim); alloc::sync::Arc::drop_slow -> no-op (memory reclamation outside the claim)
    #[kani::proof]
    #[kani::stub(crate::context::HeContext::get_context_data, crate::context::verif_v::get_context_data_stub)]
    #[kani::stub(alloc::sync::Arc::drop_slow, crate::verif_v::arc_drop_slow_noop)]
    fn c03_ckks_multiply_scale() {
        let ctx = lits::ctx_ckks_n2_1p();
        let ev = mk_evaluator(ctx.clone());
        let pid = *ctx.first_parms_id();
        ckks_scale_case(&ev, pid, 2.0, 4.0);
        std::mem::forget(ev); std::mem::forget(ctx);
    }
    fn ckks_scale_case(ev: &Evaluator, pid: ParmsID, s1: f64, s2: f64) {
        let a = sym1::<4>(); let b = sym1::<4>();
        let c1 = ct1(&a, pid, true, 1, s1); let c2 = ct1(&b, pid, true, 1, s2);
        let mut r = c1.clone();
        ev.multiply_inplace(&mut r, &c2);
        let m97 = crate::modulus::verif_v::mk_modulus(97, true);
        kani::cover!(a[0] != 0 && b[2] != 0);
        assert!(r.scale().to_bits() == (s1 * s2).to_bits());
        assert!(r.size() == 3);
        let mut p = 0;
        while p < 2 {
            assert!(r.data()[p] == kadd(0, kmul(a[p], b[p], &m97), &m97));
            assert!(r.data()[2 + p] == kadd(kadd(0, kmul(a[p], b[2 + p], &m97), &m97), kmul(a[2 + p], b[p], &m97), &m97));
            assert!(r.data()[4 + p] == kadd(0, kmul(a[2 + p], b[2 + p], &m97), &m97));
            p += 1;
        }
        assert!(r.correction_factor() == 1 && *r.parms_id() == pid);
    }

    /// word kernels of the multiplication routines, applied to ONE position: the reference of the evaluator-level multiply
    /// harnesses is composed from them (their own arithmetic is decided by c02_poly_kernels_positionwise and engine M)
    fn kmul(x: u64, y: u64, m: &crate::Modulus) -> u64 { let mut o = [0u64]; polymod::dyadic_product(&[x], &[y], m, &mut o); o[0] }
    fn kadd(x: u64, y: u64, m: &crate::Modulus) -> u64 { let mut o = [x]; polymod::add_inplace(&mut o, &[y], m); o[0] }

    // @harness id=C03 tier=quick unwind=14 timeout=2400 fs=4096
    // @desc CKKS rescaling BELOW the first data level: the recorded scale is exactly the IEEE quotient of the input scale by the prime that is dropped at THAT level (not by a prime of another level), the result sits on the next level, and modulus switching (drop) at that level keeps the scale unchanged
    // @bounds CKKS N=2, chain {97,113,193,241}: data levels {97,113,193} > {97,113} > {97}; ciphertext on the SECOND data level {97,113}; scales 2^k, 1 <= k <= 6; size 2; all canonical residues
    // @funcs Evaluator::rescale_to_next_new, Evaluator::mod_switch_to_next_new, Evaluator::mod_switch_scale_to_next_internal, Evaluator::mod_switch_drop_to_next_internal
    // @stubs HeContext::get_context_data -> linear search over the literal chain (HashMap lookup outside the claim); alloc::sync::Arc::drop_slow -> no-op (memory reclamation outside the claim)
    #[kani::proof]
    #[kani::stub(crate::context::HeContext::get_context_data, crate::context::verif_v::get_context_data_stub)]
    #[kani::stub(alloc::sync::Arc::drop_slow, crate::verif_v::arc_drop_slow_noop)]
    fn c03_rescale_scale_at_lower_level() {
        let ctx = lits::ctx_ckks_n2_4p();
        let ev = mk_evaluator(ctx.clone());
        let first = ctx.first_context_data().unwrap();
        let second = first.next_context_data().unwrap();
        let pid2 = *second.parms_id(); let last = *ctx.last_parms_id();
        assert!(second.parms().coeff_modulus().len() == 2 && pid2 != last && pid2 != *ctx.first_parms_id());
        let a = sym2::<8>();
        let k: u8 = kani::any(); kani::assume(k >= 1 && k <= 6);
        let s = (1u64 << k) as f64;
        let src = ct2(&a, pid2, true, 1, s);
        let r = ev.rescale_to_next_new(&src);
        kani::cover!(k == 6);
        assert!(*r.parms_id() == last && r.size() == 2 && r.data().len() == 4 && r.is_ntt_form());
        assert!(r.scale().to_bits() == (s / 113.0).to_bits());
        std::mem::forget(ev); std::mem::forget(ctx); std::mem::forget(first); std::mem::forget(second);
    }

    // @harness id=C03 tier=thorough unwind=14 timeout=3000 fs=4096
    // @desc CKKS rescaling BELOW the first data level: the recorded scale is exactly the IEEE quotient of the input scale by the prime that is dropped at THAT level (not by a prime of another level), the result sits on the next level, and modulus switching (drop) at that level keeps the scale unchanged
    // @bounds CKKS N=2, chain {97,113,193,241}: data levels {97,113,193} > {97,113} > {97}; ciphertext on the SECOND data level {97,113}; scales 2^k, 1 <= k <= 6; size 2; all canonical residues
    // @funcs Evaluator::rescale_to_next_new, Evaluator::mod_switch_to_next_new, Evaluator::mod_switch_scale_to_next_internal, Evaluator::mod_switch_drop_to_next_internal
    // @stubs HeContext::get_context_data -> linear search over the literal chain (HashMap lookup outside the claim); alloc::sync::Arc::drop_slow -> no-op (memory reclamation outside the claim)
    #[kani::proof]
    #[kani::stub(crate::context::HeContext::get_context_data, crate::context::verif_v::get_context_data_stub)]
    #[kani::stub(alloc::sync::Arc::drop_slow, crate::verif_v::arc_drop_slow_noop)]
    fn c03_rescale_and_drop_at_lower_level() {
        let ctx = lits::ctx_ckks_n2_4p();
        let ev = mk_evaluator(ctx.clone());
        let first = ctx.first_context_data().unwrap();
        let second = first.next_context_data().unwrap();
        let pid2 = *second.parms_id(); let last = *ctx.last_parms_id();
        assert!(second.parms().coeff_modulus().len() == 2 && pid2 != last && pid2 != *ctx.first_parms_id());
        let a = sym2::<8>();
        let k: u8 = kani::any(); kani::assume(k >= 1 && k <= 6);
        let s = (1u64 << k) as f64;
        let src = ct2(&a, pid2, true, 1, s);
        let r = ev.rescale_to_next_new(&src);
        kani::cover!(k == 6);
        assert!(*r.parms_id() == last && r.size() == 2 && r.data().len() == 4 && r.is_ntt_form());
        assert!(r.scale().to_bits() == (s / 113.0).to_bits());
        let d = ev.mod_switch_to_next_new(&src);
        assert!(*d.parms_id() == last && d.scale().to_bits() == s.to_bits());
        std::mem::forget(ev); std::mem::forget(ctx); std::mem::forget(first); std::mem::forget(second);
    }

    // @harness id=C03 tier=quick unwind=14 timeout=2400 fs=4096
    // @desc CKKS squaring and multiplication refuse (panic) instead of computing when the RESULTING scale no longer fits the modulus (checked on the product of the scales, not on the operand scale)
    // @bounds CKKS N=2, q={97} (7 bits): scale 2^4 squared / multiplied (2^8 does not fit); size 2, NTT form, all canonical residues; the two requests chosen symbolically
    // @funcs Evaluator::square_inplace, Evaluator::ckks_square, Evaluator::multiply_inplace, Evaluator::ckks_multiply, Evaluator::add_inplace, Evaluator::sub_inplace, Evaluator::translate_inplace, Evaluator::match_scale, Evaluator::is_scale_within_bounds
    // @expect panic:Invalid argument
    // @stubs HeContext::get_context_data -> linear search over the literal chain (HashMap lookup outside the claim); alloc::sync::Arc::drop_slow -> no-op (memory reclamation outside the claim)
    #[kani::proof]
    #[kani::stub(crate::context::HeContext::get_context_data, crate::context::verif_v::get_context_data_stub)]
    #[kani::stub(alloc::sync::Arc::drop_slow, crate::verif_v::arc_drop_slow_noop)]
    fn c03_refuses_scale_overflow() {
        let ctx = lits::ctx_ckks_n2_1p();
        let ev = mk_evaluator(ctx.clone());
        let pid = *ctx.first_parms_id();
        let a = sym1::<4>(); let b = sym1::<4>();
        let c: bool = kani::any();
        if c { let mut x = ct1(&a, pid, true, 1, 16.0); ev.square_inplace(&mut x); }
        else { let mut x = ct1(&a, pid, true, 1, 16.0); let y = ct1(&b, pid, true, 1, 16.0); ev.multiply_inplace(&mut x, &y); }
        kani::cover!(true, "AFTER: refused CKKS operation returned");
    }

    // @harness id=C03 tier=quick unwind=14 timeout=2400 fs=4096
    // @desc CKKS addition and subtraction refuse (panic) operands whose scales disagree instead of computing on them
    // @bounds CKKS N=2, q={97}: add and sub with scales 2 vs 4; size 2, NTT form, all canonical residues; the two requests chosen symbolically
    // @funcs Evaluator::square_inplace, Evaluator::ckks_square, Evaluator::multiply_inplace, Evaluator::ckks_multiply, Evaluator::add_inplace, Evaluator::sub_inplace, Evaluator::translate_inplace, Evaluator::match_scale, Evaluator::is_scale_within_bounds
    // @expect panic:Invalid argument
    // @stubs HeContext::get_context_data -> linear search over the literal chain (HashMap lookup outside the claim); alloc::sync::Arc::drop_slow -> no-op (memory reclamation outside the claim)
    #[kani::proof]
    #[kani::stub(crate::context::HeContext::get_context_data, crate::context::verif_v::get_context_data_stub)]
    #[kani::stub(alloc::sync::Arc::drop_slow, crate::verif_v::arc_drop_slow_noop)]
    fn c03_refuses_mismatched_scales() {
        let ctx = lits::ctx_ckks_n2_1p();
        let ev = mk_evaluator(ctx.clone());
        let pid = *ctx.first_parms_id();
        let a = sym1::<4>(); let b = sym1::<4>();
        let c: bool = kani::any();
        if c { let mut x = ct1(&a, pid, true, 1, 2.0); let y = ct1(&b, pid, true, 1, 4.0); ev.add_inplace(&mut x, &y); }
        else { let mut x = ct1(&a, pid, true, 1, 2.0); let y = ct1(&b, pid, true, 1, 4.0); ev.sub_inplace(&mut x, &y); }
        kani::cover!(true, "AFTER: refused CKKS operation returned");
    }

    // @harness id=C03 tier=quick unwind=14 timeout=2400 fs=4096
    // @desc CKKS squaring of a size-2 ciphertext records exactly the IEEE square of the scale and the three output polynomials are the slot-wise products (a0^2, 2*a0*a1, a1^2), when the squared scale fits
    // @bounds CKKS N=2, q={97}; scale 2.0; size 2; all canonical residues
    // @funcs Evaluator::square_inplace, Evaluator::ckks_square
    // @stubs HeContext::get_context_data -> linear search over the literal chain (HashMap lookup outside the claim); alloc::sync::Arc::drop_slow -> no-op (memory reclamation outside the claim)
    #[kani::proof]
    #[kani::stub(crate::context::HeContext::get_context_data, crate::context::verif_v::get_context_data_stub)]
    #[kani::stub(alloc::sync::Arc::drop_slow, crate::verif_v::arc_drop_slow_noop)]
    fn c03_ckks_square_scale() {
        let ctx = lits::ctx_ckks_n2_1p();
        let ev = mk_evaluator(ctx.clone());
        let pid = *ctx.first_parms_id();
        let a = sym1::<4>();
        let mut r = ct1(&a, pid, true, 1, 2.0);
        ev.square_inplace(&mut r);
        let q = 97u32;
        kani::cover!(a[0] != 0 && a[2] != 0);
        assert!(r.scale().to_bits() == 4.0f64.to_bits() && r.size() == 3 && r.data().len() == 6 && *r.parms_id() == pid);
        let mut p = 0;
        while p < 2 {
            let (x, y) = (a[p] as u32, a[2 + p] as u32);
            assert!(r.data()[p] as u32 == (x * x) % q);
            assert!(r.data()[2 + p] as u32 == (2 * x * y) % q);
            assert!(r.data()[4 + p] as u32 == (y * y) % q);
            p += 1;
        }
        std::mem::forget(ev); std::mem::forget(ctx);
    }

    fn crt2(r0: u64, r1: u64) -> u64 { // x < 97*113 with x = r0 mod 97, x = r1 mod 113; 113^-1 mod 97 = 91
        r1 + 113 * ((((r0 + 97 * 2 - r1 % 97) % 97) * 91) % 97)
    }

    // @harness id=C05 tier=quick unwind=14 timeout=1800 fs=4096
    // @desc BFV mod_switch_to_next (value-returning and in-place forms): the result sits exactly on the next level, every remaining residue is round(x / q_last) mod q_0 of the CRT-composed input coefficient, size/form kept, scale 1, correction factor 1; the input is unchanged
    // @bounds BFV N=2, chain {97,113} -> {97}, t=17; size 2, value-returning form (size 3 and the in-place form: thorough harness c05_bfv_mod_switch_to_next); all canonical residues; one coefficient position symbolic
    // @funcs Evaluator::mod_switch_to_next_new, Evaluator::mod_switch_to_next_inplace, Evaluator::mod_switch_scale_to_next_internal, RNSTool::divide_and_round_q_last_inplace, Ciphertext::resize
    // @stubs HeContext::get_context_data -> linear search over the literal chain (HashMap lookup outside the claim); alloc::sync::Arc::drop_slow -> no-op (memory reclamation outside the claim)
    #[kani::proof]
    #[kani::stub(crate::context::HeContext::get_context_data, crate::context::verif_v::get_context_data_stub)]
    #[kani::stub(alloc::sync::Arc::drop_slow, crate::verif_v::arc_drop_slow_noop)]
    fn c05_bfv_mod_switch_to_next_size2() {
        let ctx = lits::ctx_bfv_n2_2p1();
        let ev = mk_evaluator(ctx.clone());
        let pid = *ctx.first_parms_id(); let last = *ctx.last_parms_id();
        bfv_switch_new_case(&ev, pid, last);
        std::mem::forget(ev); std::mem::forget(ctx);
    }
    fn bfv_switch_new_case(ev: &Evaluator, pid: ParmsID, last: ParmsID) {
        let a = sym2::<8>();
        let src = ct2(&a, pid, false, 1, 1.0);
        let r = ev.mod_switch_to_next_new(&src);
        let poly: usize = kani::any(); let k: usize = kani::any(); kani::assume(poly < 2 && k < 2);
        let x = crt2(a[poly * 4 + k], a[poly * 4 + 2 + k]);
        let e = ((x + 56) / 113) % 97;
        kani::cover!(poly == 1 && e != 0);
        assert!(*r.parms_id() == last && pid != last);
        assert!(r.size() == 2 && r.coeff_modulus_size() == 1 && r.poly_modulus_degree() == 2 && r.data().len() == 4);
        assert!(r.data()[poly * 2 + k] == e);
        assert!(!r.is_ntt_form() && r.scale() == 1.0 && r.correction_factor() == 1);
        assert!(src.data()[poly * 4 + k] == a[poly * 4 + k] && *src.parms_id() == pid);
    }

    // @harness id=C05 tier=thorough unwind=14 timeout=3600 fs=4096
    // @desc BFV mod_switch_to_next (value-returning and in-place forms): the result sits exactly on the next level, every remaining residue is round(x / q_last) mod q_0 of the CRT-composed input coefficient, size/form kept, scale 1, correction factor 1; the input is unchanged
    // @bounds BFV N=2, chain {97,113} -> {97}, t=17; size 2 and 3 (two cases); all canonical residues; one coefficient position symbolic
    // @funcs Evaluator::mod_switch_to_next_new, Evaluator::mod_switch_to_next_inplace, Evaluator::mod_switch_scale_to_next_internal, RNSTool::divide_and_round_q_last_inplace, Ciphertext::resize
    // @stubs HeContext::get_context_data -> linear search over the literal chain (HashMap lookup outside the claim); alloc::sync::Arc::drop_slow -> no-op (memory reclamation outside the claim)
    #[kani::proof]
    #[kani::stub(crate::context::HeContext::get_context_data, crate::context::verif_v::get_context_data_stub)]
    #[kani::stub(alloc::sync::Arc::drop_slow, crate::verif_v::arc_drop_slow_noop)]
    fn c05_bfv_mod_switch_to_next() {
        let ctx = lits::ctx_bfv_n2_2p1();
        let ev = mk_evaluator(ctx.clone());
        let pid = *ctx.first_parms_id(); let last = *ctx.last_parms_id();
        let c: bool = kani::any();
        if c { bfv_switch_case::<8>(&ev, pid, last) } else { bfv_switch_case::<12>(&ev, pid, last) }
        std::mem::forget(ev); std::mem::forget(ctx);
    }
    fn bfv_switch_case<const L: usize>(ev: &Evaluator, pid: ParmsID, last: ParmsID) {
        let a = sym2::<L>();
        let src = ct2(&a, pid, false, 1, 1.0);
        let r = ev.mod_switch_to_next_new(&src);
        let mut r2 = src.clone(); ev.mod_switch_to_next_inplace(&mut r2);
        let size = L / 4;
        let poly: usize = kani::any(); let k: usize = kani::any(); kani::assume(poly < size && k < 2);
        let x = crt2(a[poly * 4 + k], a[poly * 4 + 2 + k]);
        let e = ((x + 56) / 113) % 97;
        kani::cover!(poly == size - 1 && e != 0);
        assert!(*r.parms_id() == last && *r2.parms_id() == last && pid != last);
        assert!(r.size() == size && r.coeff_modulus_size() == 1 && r.poly_modulus_degree() == 2 && r.data().len() == size * 2);
        assert!(r.data()[poly * 2 + k] == e && r2.data()[poly * 2 + k] == e);
        assert!(!r.is_ntt_form() && r.scale() == 1.0 && r.correction_factor() == 1);
        assert!(r2.size() == size && r2.data().len() == size * 2 && r2.scale() == 1.0 && r2.correction_factor() == 1);
        assert!(src.data()[poly * 4 + k] == a[poly * 4 + k] && *src.parms_id() == pid);
    }

    // @harness id=C05 tier=quick unwind=14 timeout=1800 fs=4096
    // @desc CKKS: mod_switch_to_next DROPS the last prime -- residues of the remaining primes unchanged, scale unchanged (also in the value-returning form, whose destination is a fresh object), result on the next level
    // @bounds CKKS N=2, chain {97,113} -> {97}; size 2; all canonical residues; scale 2^k, k in 1..6
    // @funcs Evaluator::mod_switch_to_next_new, Evaluator::mod_switch_drop_to_next_internal, Evaluator::rescale_to_next_new, Evaluator::mod_switch_scale_to_next_internal, RNSTool::divide_and_round_q_last_ntt_inplace
    // @stubs HeContext::get_context_data -> linear search over the literal chain (HashMap lookup outside the claim); alloc::sync::Arc::drop_slow -> no-op (memory reclamation outside the claim)
    #[kani::proof]
    #[kani::stub(crate::context::HeContext::get_context_data, crate::context::verif_v::get_context_data_stub)]
    #[kani::stub(alloc::sync::Arc::drop_slow, crate::verif_v::arc_drop_slow_noop)]
    fn c05_ckks_drop_keeps_scale() {
        let ctx = lits::ctx_ckks_n2_2p1();
        let ev = mk_evaluator(ctx.clone());
        let pid = *ctx.first_parms_id(); let last = *ctx.last_parms_id();
        let a = sym2::<8>();
        let k: u8 = kani::any(); kani::assume(k >= 1 && k < 7);
        let s = (1u64 << k) as f64;
        let src = ct2(&a, pid, true, 1, s);
        let d = ev.mod_switch_to_next_new(&src);
        let poly: usize = kani::any(); let j: usize = kani::any(); kani::assume(poly < 2 && j < 2);
        assert!(*d.parms_id() == last && d.size() == 2 && d.data().len() == 4 && d.is_ntt_form());
        assert!(d.data()[poly * 2 + j] == a[poly * 4 + j]);
        assert!(d.scale().to_bits() == s.to_bits());
        kani::cover!(k == 6);
        std::mem::forget(ev); std::mem::forget(ctx);
    }

    // @harness id=C05 tier=quick unwind=14 timeout=1800 fs=4096
    // @desc CKKS: rescale_to_next divides by the last prime: data = the rounding-division kernel per polynomial (decided in C10), recorded scale = IEEE quotient old / q_last exactly, result on the next level
    // @bounds CKKS N=2, chain {97,113} -> {97}; size 2; all canonical residues; scale 2^k, k in 1..6
    // @funcs Evaluator::mod_switch_to_next_new, Evaluator::mod_switch_drop_to_next_internal, Evaluator::rescale_to_next_new, Evaluator::mod_switch_scale_to_next_internal, RNSTool::divide_and_round_q_last_ntt_inplace
    // @stubs HeContext::get_context_data -> linear search over the literal chain (HashMap lookup outside the claim); alloc::sync::Arc::drop_slow -> no-op (memory reclamation outside the claim)
    #[kani::proof]
    #[kani::stub(crate::context::HeContext::get_context_data, crate::context::verif_v::get_context_data_stub)]
    #[kani::stub(alloc::sync::Arc::drop_slow, crate::verif_v::arc_drop_slow_noop)]
    fn c05_ckks_rescale_divides_scale() {
        let ctx = lits::ctx_ckks_n2_2p1();
        let ev = mk_evaluator(ctx.clone());
        let pid = *ctx.first_parms_id(); let last = *ctx.last_parms_id();
        let a = sym2::<8>();
        let k: u8 = kani::any(); kani::assume(k >= 1 && k < 7);
        let s = (1u64 << k) as f64;
        let src = ct2(&a, pid, true, 1, s);
        let poly: usize = kani::any(); let j: usize = kani::any(); kani::assume(poly < 2 && j < 2);
        let r = ev.rescale_to_next_new(&src);
        // oracle for the data: the RNS kernel (decided separately in C10) applied to each polynomial
        let cd = ctx.first_context_data().unwrap();
        let mut p0 = [a[poly * 4], a[poly * 4 + 1], a[poly * 4 + 2], a[poly * 4 + 3]];
        cd.rns_tool().divide_and_round_q_last_ntt_inplace(&mut p0, cd.small_ntt_tables());
        kani::cover!(poly == 1 && p0[j] != 0);
        assert!(*r.parms_id() == last && r.size() == 2 && r.data().len() == 4 && r.is_ntt_form());
        assert!(r.data()[poly * 2 + j] == p0[j]);
        assert!(r.scale().to_bits() == (s / 113.0).to_bits());
        std::mem::forget(ev); std::mem::forget(ctx); std::mem::forget(cd);
    }

    // @harness id=C05 tier=thorough unwind=14 timeout=3600 fs=4096
    // @desc BGV mod_switch_to_next: lands on the next level, data = the BGV divide-by-last-prime kernel per polynomial, and the correction factor is multiplied by q_last^-1 mod t (bookkeeping that keeps the plaintext unchanged)
    // @bounds BGV N=2, chain {97,113} -> {97}, t=17; size 2; all canonical residues; correction factor 1..16
    // @funcs Evaluator::mod_switch_to_next_new, Evaluator::mod_switch_scale_to_next_internal, RNSTool::mod_t_and_divide_q_last_ntt_inplace, RNSTool::inv_q_last_mod_t
    // @stubs HeContext::get_context_data -> linear search over the literal chain (HashMap lookup outside the claim); alloc::sync::Arc::drop_slow -> no-op (memory reclamation outside the claim)
    #[kani::proof]
    #[kani::stub(crate::context::HeContext::get_context_data, crate::context::verif_v::get_context_data_stub)]
    #[kani::stub(alloc::sync::Arc::drop_slow, crate::verif_v::arc_drop_slow_noop)]
    fn c05_bgv_mod_switch_to_next() {
        let ctx = lits::ctx_bgv_n2_2p1();
        let ev = mk_evaluator(ctx.clone());
        let pid = *ctx.first_parms_id(); let last = *ctx.last_parms_id();
        let a = sym2::<8>();
        let f: u8 = kani::any(); kani::assume(f >= 1 && f < 17);
        let src = ct2(&a, pid, true, f as u64, 1.0);
        let r = ev.mod_switch_to_next_new(&src);
        let poly: usize = kani::any(); let j: usize = kani::any(); kani::assume(poly < 2 && j < 2);
        let cd = ctx.first_context_data().unwrap();
        let mut p0 = [a[poly * 4], a[poly * 4 + 1], a[poly * 4 + 2], a[poly * 4 + 3]];
        cd.rns_tool().mod_t_and_divide_q_last_ntt_inplace(&mut p0, cd.small_ntt_tables());
        kani::cover!(p0[j] != 0);
        assert!(*r.parms_id() == last && r.size() == 2 && r.data().len() == 4 && r.is_ntt_form() && r.scale() == 1.0);
        assert!(r.data()[poly * 2 + j] == p0[j]);
        // 113 = 11 mod 17, 11^-1 = 14 mod 17
        assert!(r.correction_factor() == (f as u64 * 14) % 17);
        assert!((r.correction_factor() * 113) % 17 == f as u64 % 17);
        std::mem::forget(ev); std::mem::forget(ctx); std::mem::forget(cd);
    }

    // @harness id=C05 tier=quick unwind=14 timeout=1800 fs=4096 kf=rescale_to_never_terminates
    // @desc rescale_to(ct, target) TERMINATES and ends exactly on the requested level (here: one level down)
    // @bounds CKKS N=2, chain {97,113} -> {97}; source = first level, target = last level; unwind 8 > chain length + 1: a loop that does not end within the chain length fails the unwinding assertion
    // @funcs Evaluator::rescale_to_new, Evaluator::rescale_to
    // @expect pass-or-term
    // @stubs HeContext::get_context_data -> linear search over the literal chain (HashMap lookup outside the claim); alloc::sync::Arc::drop_slow -> no-op (memory reclamation outside the claim)
    #[kani::proof]
    #[kani::stub(crate::context::HeContext::get_context_data, crate::context::verif_v::get_context_data_stub)]
    #[kani::stub(alloc::sync::Arc::drop_slow, crate::verif_v::arc_drop_slow_noop)]
    fn c05_rescale_to_terminates() {
        let ctx = lits::ctx_ckks_n2_2p1();
        let ev = mk_evaluator(ctx.clone());
        let pid = *ctx.first_parms_id(); let last = *ctx.last_parms_id();
        let a = sym2::<8>();
        let src = ct2(&a, pid, true, 1, 64.0);
        let r = ev.rescale_to_new(&src, &last);
        kani::cover!(true);
        assert!(*r.parms_id() == last && r.size() == 2);
        assert!(r.scale().to_bits() == (64.0f64 / 113.0).to_bits());
        std::mem::forget(ev); std::mem::forget(ctx);
    }

    // @harness id=C05 tier=quick unwind=14 timeout=1800 fs=4096
    // @desc requests that cannot be served are refused (panic), never computed: mod switching past the last level, switching upward to a higher level, rescaling a BFV ciphertext
    // @bounds BFV N=2 chain {97,113} -> {97}; the three requests chosen symbolically; all canonical residues
    // @funcs Evaluator::mod_switch_to_next_inplace, Evaluator::mod_switch_to_inplace, Evaluator::rescale_to_next_inplace
    // @expect panic:Invalid argument|End of modulus switching chain|higher level|only supported for CKKS
    // @stubs HeContext::get_context_data -> linear search over the literal chain (HashMap lookup outside the claim); alloc::sync::Arc::drop_slow -> no-op (memory reclamation outside the claim)
    #[kani::proof]
    #[kani::stub(crate::context::HeContext::get_context_data, crate::context::verif_v::get_context_data_stub)]
    #[kani::stub(alloc::sync::Arc::drop_slow, crate::verif_v::arc_drop_slow_noop)]
    fn c05_refusals() {
        let ctx = lits::ctx_bfv_n2_2p1();
        let ev = mk_evaluator(ctx.clone());
        let first = *ctx.first_parms_id(); let last = *ctx.last_parms_id();
        let c: u8 = kani::any();
        match c {
            0 => { let a = sym1::<4>(); let mut x = ct1(&a, last, false, 1, 1.0); ev.mod_switch_to_next_inplace(&mut x); }
            1 => { let a = sym1::<4>(); let mut x = ct1(&a, last, false, 1, 1.0); ev.mod_switch_to_inplace(&mut x, &first); }
            _ => { let a = sym2::<8>(); let mut x = ct2(&a, first, false, 1, 1.0); ev.rescale_to_next_inplace(&mut x); }
        }
        kani::cover!(true, "AFTER: refused operation returned");
    }

    // @harness id=C05 tier=quick unwind=14 timeout=1800 fs=4096
    // @desc rescaling is refused outside CKKS: a BGV ciphertext passed to rescale_to_next is refused (panic), never silently modulus-switched
    // @bounds BGV N=2 chain {97,113} -> {97}; all canonical residues, NTT form
    // @funcs Evaluator::rescale_to_next_inplace, Evaluator::rescale_to_next
    // @expect panic:only supported for CKKS
    // @stubs HeContext::get_context_data -> linear search over the literal chain (HashMap lookup outside the claim); alloc::sync::Arc::drop_slow -> no-op (memory reclamation outside the claim)
    #[kani::proof]
    #[kani::stub(crate::context::HeContext::get_context_data, crate::context::verif_v::get_context_data_stub)]
    #[kani::stub(alloc::sync::Arc::drop_slow, crate::verif_v::arc_drop_slow_noop)]
    fn c05_rescale_refused_for_bgv() {
        let ctx = lits::ctx_bgv_n2_2p1();
        let ev = mk_evaluator(ctx.clone());
        let first = *ctx.first_parms_id();
        let a = sym2::<8>(); let mut x = ct2(&a, first, true, 1, 1.0);
        ev.rescale_to_next_inplace(&mut x);
        kani::cover!(true, "AFTER: BGV rescale returned");
    }

    // @harness id=C06 tier=thorough unwind=14 timeout=3000 fs=4096
    // @desc the three API forms of addition (in-place, destination-argument with a destination pre-filled with a DIFFERENT-sized ciphertext, value-returning) give field-wise identical results and leave both read-only operands unchanged; the result is valid for the context
    // @bounds BFV N=2, q={97}; sizes (2,3); destination pre-filled with an arbitrary size-3 NTT-flagged ciphertext; all canonical residues
    // @funcs Evaluator::add, Evaluator::add_new, Evaluator::add_inplace, Ciphertext::is_valid_for
    // @stubs HeContext::get_context_data -> linear search over the literal chain (HashMap lookup outside the claim); alloc::sync::Arc::drop_slow -> no-op (memory reclamation outside the claim)
    #[kani::proof]
    #[kani::stub(crate::context::HeContext::get_context_data, crate::context::verif_v::get_context_data_stub)]
    #[kani::stub(alloc::sync::Arc::drop_slow, crate::verif_v::arc_drop_slow_noop)]
    fn c06_add_forms_agree() {
        let ctx = lits::ctx_bfv_n2_1p();
        let ev = mk_evaluator(ctx.clone());
        let pid = *ctx.first_parms_id();
        let a = sym1::<4>(); let b = sym1::<6>(); let g = sym1::<6>();
        let c1 = ct1(&a, pid, false, 1, 1.0); let c2 = ct1(&b, pid, false, 1, 1.0);
        let mut dest = ct1(&g, pid, true, 1, 1.0);
        ev.add(&c1, &c2, &mut dest);
        let rn = ev.add_new(&c1, &c2);
        let mut ri = c1.clone(); ev.add_inplace(&mut ri, &c2);
        let p: usize = kani::any(); kani::assume(p < 6);
        kani::cover!(g[p] != b[p]);
        assert!(dest.size() == 3 && rn.size() == 3 && ri.size() == 3 && dest.data().len() == 6 && rn.data().len() == 6 && ri.data().len() == 6);
        assert!(dest.data()[p] == rn.data()[p] && rn.data()[p] == ri.data()[p]);
        assert!(dest.is_ntt_form() == rn.is_ntt_form() && rn.is_ntt_form() == ri.is_ntt_form() && !rn.is_ntt_form());
        assert!(*dest.parms_id() == pid && dest.scale() == 1.0 && dest.correction_factor() == 1);
        assert!(c1.size() == 2 && c1.data().len() == 4 && c2.data()[p] == b[p] && (p >= 4 || c1.data()[p] == a[p]));
        assert!(rn.is_valid_for(&ctx));
        std::mem::forget(ev); std::mem::forget(ctx);
    }

    // @harness id=C06 tier=quick unwind=14 timeout=1800 fs=4096 kf=mod_switch_dest_stale_metadata
    // @desc mod_switch_to_next with a destination argument that previously held another ciphertext gives the same result (data AND scale / correction-factor metadata) as the value-returning form, and the result is valid for the context
    // @bounds BFV N=2, chain {97,113} -> {97}; size 2; destination pre-filled with a ciphertext whose scale and correction-factor fields are arbitrary; all canonical residues
    // @funcs Evaluator::mod_switch_to_next, Evaluator::mod_switch_to_next_new, Ciphertext::is_valid_for
    // @stubs HeContext::get_context_data -> linear search over the literal chain (HashMap lookup outside the claim); alloc::sync::Arc::drop_slow -> no-op (memory reclamation outside the claim)
    #[kani::proof]
    #[kani::stub(crate::context::HeContext::get_context_data, crate::context::verif_v::get_context_data_stub)]
    #[kani::stub(alloc::sync::Arc::drop_slow, crate::verif_v::arc_drop_slow_noop)]
    fn c06_mod_switch_forms_agree() {
        let ctx = lits::ctx_bfv_n2_2p1();
        let ev = mk_evaluator(ctx.clone());
        let pid = *ctx.first_parms_id();
        let a = sym2::<8>(); let g = sym2::<8>();
        let src = ct2(&a, pid, false, 1, 1.0);
        let sb: u64 = kani::any(); let gs = f64::from_bits(sb); kani::assume(gs.is_finite() && gs > 0.0);
        let gcf: u64 = kani::any();
        let mut dest = ct2(&g, pid, false, gcf, gs);
        ev.mod_switch_to_next(&src, &mut dest);
        let rn = ev.mod_switch_to_next_new(&src);
        let p: usize = kani::any(); kani::assume(p < 4);
        kani::cover!(gcf != 1 && gs != 1.0);
        assert!(dest.data().len() == 4 && dest.data()[p] == rn.data()[p] && *dest.parms_id() == *rn.parms_id());
        assert!(dest.scale().to_bits() == rn.scale().to_bits() && dest.correction_factor() == rn.correction_factor());
        assert!(dest.is_valid_for(&ctx));
        std::mem::forget(ev); std::mem::forget(ctx);
    }

    // @harness id=C06 tier=quick unwind=14 timeout=2400 fs=4096
    // @desc the validity predicate every evaluator operation applies first (Evaluator::check_ciphertext = is_valid_for + seed check) rejects EVERY single-field corruption of an otherwise valid ciphertext -- this harness: a residue >= q at any position of any polynomial (c0 and c1)
    // @bounds BFV N=2, q={97}; size-2 ciphertext, all other residues canonical; corrupted position: each of the 4 positions in turn; corrupted value any byte >= 97
    // @funcs Ciphertext::is_valid_for, Ciphertext::is_metadata_valid_for, Ciphertext::is_data_valid_for, Ciphertext::is_buffer_valid, Ciphertext::contains_seed
    // @stubs HeContext::get_context_data -> linear search over the literal chain (HashMap lookup outside the claim); alloc::sync::Arc::drop_slow -> no-op (memory reclamation outside the claim)
    #[kani::proof]
    #[kani::stub(crate::context::HeContext::get_context_data, crate::context::verif_v::get_context_data_stub)]
    #[kani::stub(alloc::sync::Arc::drop_slow, crate::verif_v::arc_drop_slow_noop)]
    fn c06_validity_rejects_residue() {
        let ctx = lits::ctx_bfv_n2_1p();
        let pid = *ctx.first_parms_id();
        let bad: u8 = kani::any(); kani::assume(bad >= 97);
        let mut k = 0;
        while k < 4 {
            let mut b = sym1::<4>(); b[k] = bad as u64;
            if k != 2 { b[2] = 42; }                       // seed-flag slot concrete unless it is the corrupted one
            let c2 = ct1(&b, pid, false, 1, 1.0);
            assert!(!c2.is_valid_for(&ctx) || c2.contains_seed());
            k += 1;
        }
        kani::cover!(true);
        std::mem::forget(ctx);
    }

    // @harness id=C06 tier=quick unwind=14 timeout=2400 fs=4096
    // @desc the validity predicate every evaluator operation applies first (Evaluator::check_ciphertext = is_valid_for + seed check) rejects EVERY single-field corruption of an otherwise valid ciphertext -- this harness: a foreign parms id (any single-word change of the identifier)
    // @bounds BFV N=2, q={97}; size-2 ciphertext, all other residues canonical; identifier with one bit flipped (bits 0, 17, 63 of each of the 4 words: concrete ids -- a symbolic identifier makes the lookup result a symbolic pointer and does not finish) and the all-zero identifier; residues symbolic
    // @funcs Ciphertext::is_valid_for, Ciphertext::is_metadata_valid_for, Ciphertext::is_data_valid_for, Ciphertext::is_buffer_valid, Ciphertext::contains_seed
    // @stubs HeContext::get_context_data -> linear search over the literal chain (HashMap lookup outside the claim); alloc::sync::Arc::drop_slow -> no-op (memory reclamation outside the claim)
    #[kani::proof]
    #[kani::stub(crate::context::HeContext::get_context_data, crate::context::verif_v::get_context_data_stub)]
    #[kani::stub(alloc::sync::Arc::drop_slow, crate::verif_v::arc_drop_slow_noop)]
    fn c06_validity_rejects_foreign_id() {
        let ctx = lits::ctx_bfv_n2_1p();
        let pid = *ctx.first_parms_id();
        let mut b = sym1::<4>(); b[2] = 42;
        let mut w = 0;
        while w < 4 {
            let mut k = 0;
            while k < 3 {
                let mut fp = pid; fp[w] ^= 1u64 << [0, 17, 63][k];
                let c2 = ct1(&b, fp, false, 1, 1.0);
                assert!(!c2.is_valid_for(&ctx));
                k += 1;
            }
            w += 1;
        }
        let c3 = ct1(&b, crate::PARMS_ID_ZERO, false, 1, 1.0);
        assert!(!c3.is_valid_for(&ctx));
        kani::cover!(true);
        std::mem::forget(ctx);
    }

    // @harness id=C06 tier=quick unwind=14 timeout=2400 fs=4096
    // @desc the validity predicate every evaluator operation applies first (Evaluator::check_ciphertext = is_valid_for + seed check) rejects EVERY single-field corruption of an otherwise valid ciphertext: a residue >= q at any position of any polynomial, a foreign parms id (any bit pattern), size 1, wrong degree, wrong modulus count, buffer shorter than announced, scale != 1 in BFV, correction factor != 1 in BFV, an unexpanded seed marker
    // @bounds BFV N=2, q={97}; size-2 ciphertext, all other residues canonical; corruption kinds of this harness: size 1; wrong degree, corrupted value symbolic
    // @funcs Ciphertext::is_valid_for, Ciphertext::is_metadata_valid_for, Ciphertext::is_data_valid_for, Ciphertext::is_buffer_valid, Ciphertext::contains_seed
    // @stubs HeContext::get_context_data -> linear search over the literal chain (HashMap lookup outside the claim); alloc::sync::Arc::drop_slow -> no-op (memory reclamation outside the claim)
    #[kani::proof]
    #[kani::stub(crate::context::HeContext::get_context_data, crate::context::verif_v::get_context_data_stub)]
    #[kani::stub(alloc::sync::Arc::drop_slow, crate::verif_v::arc_drop_slow_noop)]
    fn c06_validity_rejects_shape_a() {
        let ctx = lits::ctx_bfv_n2_1p();
        let pid = *ctx.first_parms_id();
        let w: bool = kani::any();
        if w { corrupt_case(&ctx, pid, 2) } else { corrupt_case(&ctx, pid, 3) }
        std::mem::forget(ctx);
    }

    // @harness id=C06 tier=quick unwind=14 timeout=2400 fs=4096
    // @desc the validity predicate every evaluator operation applies first (Evaluator::check_ciphertext = is_valid_for + seed check) rejects EVERY single-field corruption of an otherwise valid ciphertext: a residue >= q at any position of any polynomial, a foreign parms id (any bit pattern), size 1, wrong degree, wrong modulus count, buffer shorter than announced, scale != 1 in BFV, correction factor != 1 in BFV, an unexpanded seed marker
    // @bounds BFV N=2, q={97}; size-2 ciphertext, all other residues canonical; corruption kinds of this harness: wrong modulus count; scale != 1, corrupted value symbolic
    // @funcs Ciphertext::is_valid_for, Ciphertext::is_metadata_valid_for, Ciphertext::is_data_valid_for, Ciphertext::is_buffer_valid, Ciphertext::contains_seed
    // @stubs HeContext::get_context_data -> linear search over the literal chain (HashMap lookup outside the claim); alloc::sync::Arc::drop_slow -> no-op (memory reclamation outside the claim)
    #[kani::proof]
    #[kani::stub(crate::context::HeContext::get_context_data, crate::context::verif_v::get_context_data_stub)]
    #[kani::stub(alloc::sync::Arc::drop_slow, crate::verif_v::arc_drop_slow_noop)]
    fn c06_validity_rejects_shape_b() {
        let ctx = lits::ctx_bfv_n2_1p();
        let pid = *ctx.first_parms_id();
        let w: bool = kani::any();
        if w { corrupt_case(&ctx, pid, 4) } else { corrupt_case(&ctx, pid, 6) }
        std::mem::forget(ctx);
    }

    // @harness id=C06 tier=quick unwind=14 timeout=2400 fs=4096
    // @desc the validity predicate every evaluator operation applies first (Evaluator::check_ciphertext = is_valid_for + seed check) rejects EVERY single-field corruption of an otherwise valid ciphertext: a residue >= q at any position of any polynomial, a foreign parms id (any bit pattern), size 1, wrong degree, wrong modulus count, buffer shorter than announced, scale != 1 in BFV, correction factor != 1 in BFV, an unexpanded seed marker
    // @bounds BFV N=2, q={97}; size-2 ciphertext, all other residues canonical; corruption kinds of this harness: correction factor != 1; seed marker, corrupted value symbolic
    // @funcs Ciphertext::is_valid_for, Ciphertext::is_metadata_valid_for, Ciphertext::is_data_valid_for, Ciphertext::is_buffer_valid, Ciphertext::contains_seed
    // @stubs HeContext::get_context_data -> linear search over the literal chain (HashMap lookup outside the claim); alloc::sync::Arc::drop_slow -> no-op (memory reclamation outside the claim)
    #[kani::proof]
    #[kani::stub(crate::context::HeContext::get_context_data, crate::context::verif_v::get_context_data_stub)]
    #[kani::stub(alloc::sync::Arc::drop_slow, crate::verif_v::arc_drop_slow_noop)]
    fn c06_validity_rejects_cf_or_seed() {
        let ctx = lits::ctx_bfv_n2_1p();
        let pid = *ctx.first_parms_id();
        let w: bool = kani::any();
        if w { corrupt_case(&ctx, pid, 7) } else { corrupt_case(&ctx, pid, 8) }
        std::mem::forget(ctx);
    }

    fn corrupt_case(ctx: &Arc<HeContext>, pid: ParmsID, which: u8) {
        let mut b = sym1::<4>();
        let bad: u8 = kani::any();
        let c2 = match which {
            2 => mk_ciphertext(1, 1, 2, vec![b[0], b[1]], pid, 1.0, false, 1),
            3 => mk_ciphertext(2, 1, 4, b.to_vec(), pid, 1.0, false, 1),
            4 => mk_ciphertext(2, 2, 2, b.to_vec(), pid, 1.0, false, 1),
            6 => ct1(&b, pid, false, 1, 2.0),
            7 => { kani::assume(bad != 1); ct1(&b, pid, false, bad as u64, 1.0) }
            _ => { b[2] = crate::text::CIPHERTEXT_SEED_FLAG; ct1(&b, pid, false, 1, 1.0) }
        };
        kani::cover!(true);
        assert!(!c2.is_valid_for(ctx) || c2.contains_seed());
        if which == 8 { assert!(c2.contains_seed()); }
    }

    // @harness id=C06 tier=quick unwind=14 timeout=2400 fs=4096
    // @desc public operations apply that predicate before computing: add_inplace, negate_inplace and mod_switch_to_next_inplace refuse (panic) an operand with an out-of-range residue resp. an unexpanded seed marker, on every path
    // @bounds BFV N=2, q={97}; witness corruptions: residue 200 at position 1 (second polynomial: position 3), seed marker; other residues symbolic; operation chosen symbolically
    // @funcs Evaluator::add_inplace, Evaluator::negate_inplace, Evaluator::mod_switch_to_next_inplace, Evaluator::check_ciphertext
    // @expect panic:Invalid argument
    // @stubs HeContext::get_context_data -> linear search over the literal chain (HashMap lookup outside the claim); alloc::sync::Arc::drop_slow -> no-op (memory reclamation outside the claim)
    #[kani::proof]
    #[kani::stub(crate::context::HeContext::get_context_data, crate::context::verif_v::get_context_data_stub)]
    #[kani::stub(alloc::sync::Arc::drop_slow, crate::verif_v::arc_drop_slow_noop)]
    fn c06_operations_refuse_invalid_operand() {
        let ctx = lits::ctx_bfv_n2_1p();
        let ev = mk_evaluator(ctx.clone());
        let pid = *ctx.first_parms_id();
        let a = sym1::<4>(); let mut b = sym1::<4>();
        let w: u8 = kani::any();
        if w == 0 { b[3] = 200; let mut c1 = ct1(&a, pid, false, 1, 1.0); let c2 = ct1(&b, pid, false, 1, 1.0); ev.add_inplace(&mut c1, &c2); }
        else if w == 1 { b[1] = 200; let mut c2 = ct1(&b, pid, false, 1, 1.0); ev.negate_inplace(&mut c2); }
        else if w == 2 { b[2] = crate::text::CIPHERTEXT_SEED_FLAG; let mut c1 = ct1(&a, pid, false, 1, 1.0); let c2 = ct1(&b, pid, false, 1, 1.0); ev.add_inplace(&mut c1, &c2); }
        else { b[0] = 97; let mut c2 = ct1(&b, pid, false, 1, 1.0); ev.mod_switch_to_next_inplace(&mut c2); }
        kani::cover!(true, "AFTER: invalid operand accepted");
    }

    // @harness id=C06 tier=quick unwind=14 timeout=2400 fs=4096
    // @desc a ciphertext whose data buffer is SHORTER than its announced shape is never computed on: add_inplace stops with a panic (bounds-checked read inside the validity check or the explicit refusal) before anything is written
    // @bounds BFV N=2, q={97}; second operand announces size 2 but carries 3 words; other residues symbolic
    // @funcs Evaluator::add_inplace, Ciphertext::is_valid_for
    // @expect panic:Invalid argument|index out of bounds
    // @stubs HeContext::get_context_data -> linear search over the literal chain (HashMap lookup outside the claim); alloc::sync::Arc::drop_slow -> no-op (memory reclamation outside the claim)
    #[kani::proof]
    #[kani::stub(crate::context::HeContext::get_context_data, crate::context::verif_v::get_context_data_stub)]
    #[kani::stub(alloc::sync::Arc::drop_slow, crate::verif_v::arc_drop_slow_noop)]
    fn c06_short_buffer_never_computed_on() {
        let ctx = lits::ctx_bfv_n2_1p();
        let ev = mk_evaluator(ctx.clone());
        let pid = *ctx.first_parms_id();
        let a = sym1::<4>(); let b = sym1::<4>();
        let mut c1 = ct1(&a, pid, false, 1, 1.0);
        let c2 = mk_ciphertext(2, 1, 2, vec![b[0], b[1], b[2]], pid, 1.0, false, 1);
        ev.add_inplace(&mut c1, &c2);
        kani::cover!(true, "AFTER: short-buffer operand accepted");
    }

    fn tern(x: u8, q: u64) -> u64 { match x { 0 => 0, 1 => 1, _ => q - 1 } }
    fn small(e: i8, q: u64) -> u64 { if e >= 0 { e as u64 } else { q - (-(e as i64)) as u64 } }
    /// (a*b)(X) in Z_q[X]/(X^2+1), coefficient form
    fn nmul2(a: [u64; 2], b: [u64; 2], q: u64) -> [u64; 2] { [(a[0] * b[0] + q * q - a[1] * b[1]) % q, (a[0] * b[1] + a[1] * b[0]) % q] }

    // @harness id=C04 tier=deep unwind=14 timeout=14000 fs=4096 mem=40
    // @desc key-switching lemma at a LOWER level of the chain: for any key-switching key whose digit satisfies the RLWE relation ksk = (-(a*s) - e + P*s' [digit component], a) with arbitrary mask a and error |e| <= 21, switch_key_inplace_internal turns (c0, c1) into a ciphertext whose phase under s is phase_in + target*s' + delta with |delta| <= 30 (so relinearisation, Galois rotation and secret-key switching preserve the plaintext); the special prime's component and NTT table are the ones used for the extra RNS slot at every level
    // @bounds BFV N=2, chain {97,113,193} (special prime 193), ciphertext at the LAST level {97} (decomposition size 1 < key size - 1); all ciphertext/target residues, all ternary s and s', all masks, all errors in [-21,21]
    // @funcs Evaluator::switch_key_inplace_internal, polysmallmod::{ntt_lazy,intt_lazy,modulo,multiply_operand_inplace,add_inplace}, barrett_reduce_u128, PublicKey::is_valid_for
    // @stubs HeContext::get_context_data -> linear search over the literal chain (HashMap lookup outside the claim); alloc::sync::Arc::drop_slow -> no-op (memory reclamation outside the claim)
    #[kani::proof]
    #[kani::stub(crate::context::HeContext::get_context_data, crate::context::verif_v::get_context_data_stub)]
    #[kani::stub(alloc::sync::Arc::drop_slow, crate::verif_v::arc_drop_slow_noop)]
    fn c04_key_switch_lemma_lower_level() {
        let sk: [u8; 4] = kani::any(); kani::assume(sk[0] < 3 && sk[1] < 3 && sk[2] < 3 && sk[3] < 3);
        let er: [i8; 2] = kani::any(); kani::assume(er[0] >= -21 && er[0] <= 21 && er[1] >= -21 && er[1] <= 21);
        let am: [u8; 6] = kani::any();
        ks_case(sk, er, am, false);
    }

    // @harness id=C04 tier=thorough unwind=14 timeout=4500 fs=4096 mem=24
    // @desc key switching at a LOWER level of the chain with a fixed key-switching key: for EVERY target polynomial at the last level (ciphertext fixed: it only enters additively), switch_key_inplace_internal changes the phase under s by target*s' plus a noise term bounded by the key error (the special prime -- the LAST key modulus, not the next data prime -- is the one divided out), size/level/representation kept
    // @bounds BFV N=2, chain {97,113,193} (special prime 193), ciphertext (3,50 | 96,7) at the LAST level {97}; all target residues; fixed keys s = 1 - X, s' = X, key error (3,-2), mask (5,7 | 11,13 | 17,19); the all-keys version is the thorough harness c04_key_switch_lemma_lower_level
    // @funcs Evaluator::switch_key_inplace_internal, polysmallmod::{ntt_lazy,intt_lazy,modulo,multiply_operand_inplace,add_inplace}, barrett_reduce_u128
    // @stubs HeContext::get_context_data -> linear search over the literal chain (HashMap lookup outside the claim); alloc::sync::Arc::drop_slow -> no-op (memory reclamation outside the claim)
    #[kani::proof]
    #[kani::stub(crate::context::HeContext::get_context_data, crate::context::verif_v::get_context_data_stub)]
    #[kani::stub(alloc::sync::Arc::drop_slow, crate::verif_v::arc_drop_slow_noop)]
    fn c04_key_switch_lower_level_fixed_key() { ks_case([1, 2, 0, 1], [3, -2], [5, 7, 11, 13, 17, 19], true); }

    fn ks_case(sk: [u8; 4], er: [i8; 2], am: [u8; 6], fixed_ct: bool) {
        use crate::key::verif_v::{mk_public_key, mk_kswitch_keys};
        let ctx = lits::ctx_bfv_n2();
        let ev = mk_evaluator(ctx.clone());
        let key_pid = *ctx.key_parms_id(); let last = *ctx.last_parms_id();
        let qs = [97u64, 113, 193];
        let kcd = ctx.key_context_data().unwrap();
        let tabs = kcd.small_ntt_tables();
        // secret keys (coefficient form -> NTT form per key modulus with the real transform)
        let mut c0 = [0u64; 6]; let mut c1 = [0u64; 6];
        let mut m = 0;
        while m < 3 {
            let q = qs[m];
            kani::assume((am[2 * m] as u64) < q && (am[2 * m + 1] as u64) < q);
            let mut s_hat = [tern(sk[0], q), tern(sk[1], q)]; tabs[m].ntt_negacyclic_harvey(&mut s_hat);
            let mut e_hat = [small(er[0], q), small(er[1], q)]; tabs[m].ntt_negacyclic_harvey(&mut e_hat);
            let mut t_hat = [tern(sk[2], q), tern(sk[3], q)]; tabs[m].ntt_negacyclic_harvey(&mut t_hat);
            let mut k = 0;
            while k < 2 {
                let a = am[2 * m + k] as u64;
                let mut v = (q * q - (a * s_hat[k]) % q + q - e_hat[k]) % q;            // -(a*s) - e   (slot-wise in NTT form)
                if m == 0 { v = (v + (193 % q) * t_hat[k]) % q; }                        // + P * s'  in the digit's own component
                c0[2 * m + k] = v; c1[2 * m + k] = a;
                k += 1;
            }
            m += 1;
        }
        let mut d0 = [0u64; 12]; let mut k = 0; while k < 6 { d0[k] = c0[k]; d0[6 + k] = c1[k]; k += 1; }
        let digit0 = mk_public_key(mk_ciphertext(2, 3, 2, d0.to_vec(), key_pid, 1.0, true, 1));
        let digit1 = mk_public_key(mk_ciphertext(2, 3, 2, vec![0; 12], key_pid, 1.0, true, 1));
        let ksk = mk_kswitch_keys(key_pid, vec![vec![digit0, digit1]]);
        // ciphertext and target at the last level (q = 97), coefficient form
        let c = if fixed_ct { [3u64, 50, 96, 7] } else { sym1::<4>() }; let tg: [u8; 2] = kani::any(); kani::assume(tg[0] < 97 && tg[1] < 97);
        let target = [tg[0] as u64, tg[1] as u64];
        let mut enc = ct1(&c, last, false, 1, 1.0);
        ev.switch_key_inplace_internal(&mut enc, &target, &ksk, 0);
        let q = 97u64;
        let s = [tern(sk[0], q), tern(sk[1], q)]; let sp = [tern(sk[2], q), tern(sk[3], q)];
        let pin = nmul2([c[2], c[3]], s, q); let pout = nmul2([enc.data()[2], enc.data()[3]], s, q);
        let tsp = nmul2(target, sp, q);
        let i: usize = kani::any(); kani::assume(i < 2);
        let phase_in = (c[i] + pin[i]) % q; let phase_out = (enc.data()[i] + pout[i]) % q;
        let delta = (phase_out + 2 * q - phase_in - tsp[i]) % q;
        kani::cover!(delta != 0 && tsp[i] != 0);
        assert!(delta <= 30 || delta >= q - 30);
        assert!(enc.size() == 2 && *enc.parms_id() == last && !enc.is_ntt_form());
        std::mem::forget(ev); std::mem::forget(ctx); std::mem::forget(kcd);
    }

    // ---- rotation composition: apply_galois_inplace replaced by a recorder (the automorphism + key switch itself is decided by
    //      c04_apply_is_substitution / c04_ntt_table_is_substitution / c04_key_switch_lemma_lower_level)
    static mut GAL_ACC: usize = 1;
    static mut GAL_CALLS: usize = 0;
    static mut GAL_MOD: usize = 32;
    fn apply_galois_recorder(_this: &Evaluator, _encrypted: &mut Ciphertext, galois_elt: usize, galois_keys: &GaloisKeys) {
        assert!(galois_keys.has_key(galois_elt), "rotation requested a Galois element whose key is not present");
        unsafe { GAL_ACC = (GAL_ACC * galois_elt) % GAL_MOD; GAL_CALLS += 1; }
    }

    // @harness id=C04 tier=quick unwind=20 timeout=3600 fs=4096
    // @desc rotate_internal composes ANY row-rotation step from the default power-of-two keys: the product of the Galois elements it applies equals get_elt_from_step(step) mod 2N (so the composed automorphism is the requested rotation), every element it requests has a key in the default set, and it never panics -- for every step with 0 < |step| < N/2, whether the key is present directly or the step is NAF-composed (at N=16 only the +N/2 NAF digit occurs -- step 6 = -2+8 --; the -N/2 digit needs N=32: c04_rotation_composition_n32)
    // @bounds BFV N=16 (row length 8), t=97; Galois keys = exactly get_elts_all(); every step in -7..7; apply_galois_inplace stubbed by a recorder
    // @funcs Evaluator::rotate_internal, GaloisKeys::has_key, GaloisTool::get_elt_from_step, GaloisTool::get_elts_all, naf
    // @stubs Evaluator::apply_galois_inplace -> recorder (multiplies the applied elements, checks key presence); HeContext::get_context_data -> linear search over the literal chain; alloc::sync::Arc::drop_slow -> no-op
    #[kani::proof]
    #[kani::stub(crate::context::HeContext::get_context_data, crate::context::verif_v::get_context_data_stub)]
    #[kani::stub(alloc::sync::Arc::drop_slow, crate::verif_v::arc_drop_slow_noop)]
    #[kani::stub(crate::evaluator::Evaluator::apply_galois_inplace, apply_galois_recorder)]
    fn c04_rotation_composition() {
        use crate::key::verif_v::{mk_public_key, mk_kswitch_keys, mk_galois_keys}; use crate::PublicKey;
        let ctx = lits::ctx_bfv_n16_2p1();
        let ev = mk_evaluator(ctx.clone());
        let key_pid = *ctx.key_parms_id(); let first = *ctx.first_parms_id();
        let cd = ctx.first_context_data().unwrap();
        let gt = cd.galois_tool();
        let elts = gt.get_elts_all();
        // key table indexed by (elt - 1) / 2; present entries are non-empty (contents irrelevant for the recorder)
        let mut keys: Vec<Vec<PublicKey>> = vec![vec![], vec![], vec![], vec![], vec![], vec![], vec![], vec![], vec![], vec![], vec![], vec![], vec![], vec![], vec![], vec![]];
        let mut i = 0;
        while i < elts.len() { keys[(elts[i] - 1) / 2] = vec![mk_public_key(Ciphertext::new())]; i += 1; }
        let gk = mk_galois_keys(mk_kswitch_keys(key_pid, keys));
        let mut ct = mk_ciphertext(2, 2, 16, vec![0; 64], first, 1.0, false, 1);
        // every step -7..7 (enumerated as concrete cases: the recursion over the NAF digits with a symbolic step does not finish)
        let mut step: isize = -7; let mut composed = 0;
        while step <= 7 {
            if step != 0 {
                unsafe { GAL_ACC = 1; GAL_CALLS = 0; }
                ev.rotate_internal(&mut ct, step, &gk);
                let want = gt.get_elt_from_step(step);
                assert!(unsafe { GAL_ACC } == want % 32);
                assert!(unsafe { GAL_CALLS } >= 1);
                if unsafe { GAL_CALLS } >= 2 { composed += 1; }
            }
            step += 1;
        }
        kani::cover!(composed >= 4);
        std::mem::forget(ev); std::mem::forget(ctx); std::mem::forget(cd); std::mem::forget(gk);
    }

    // @harness id=C04 tier=quick unwind=36 timeout=3600 fs=4096 mem=24
    // @desc as c04_rotation_composition at N=32 (row length 16), where legal steps exist whose NAF contains the digit -N/2 (-11 = 1+4-16, -13 = -1+4-16) as well as +N/2 (11, 12, 13, 14, 15): both signs of the +-N/2 digit are the identity rotation and must be skipped, never forwarded; the product of the applied Galois elements equals the element of the requested step, every requested element has a default key, no panic
    // @bounds BFV N=32, q={257,449}, t=193; Galois keys = exactly get_elts_all(); steps -13, -11 (NAF digit -16), -9, 11..15 (NAF digit +16), concrete per case; apply_galois_inplace stubbed by a recorder
    // @funcs Evaluator::rotate_internal, GaloisKeys::has_key, GaloisTool::get_elt_from_step, GaloisTool::get_elts_all, naf
    // @stubs Evaluator::apply_galois_inplace -> recorder (multiplies the applied elements, checks key presence); HeContext::get_context_data -> linear search over the literal chain; alloc::sync::Arc::drop_slow -> no-op
    #[kani::proof]
    #[kani::stub(crate::context::HeContext::get_context_data, crate::context::verif_v::get_context_data_stub)]
    #[kani::stub(alloc::sync::Arc::drop_slow, crate::verif_v::arc_drop_slow_noop)]
    #[kani::stub(crate::evaluator::Evaluator::apply_galois_inplace, apply_galois_recorder)]
    fn c04_rotation_composition_n32() {
        use crate::key::verif_v::{mk_public_key, mk_kswitch_keys, mk_galois_keys}; use crate::PublicKey;
        let ctx = lits::ctx_bfv_n32_2p1();
        let ev = mk_evaluator(ctx.clone());
        let key_pid = *ctx.key_parms_id(); let first = *ctx.first_parms_id();
        let cd = ctx.first_context_data().unwrap();
        let gt = cd.galois_tool();
        let elts = gt.get_elts_all();
        let mut keys: Vec<Vec<PublicKey>> = Vec::new();
        let mut i = 0; while i < 32 { keys.push(vec![]); i += 1; }
        let mut i = 0;
        while i < elts.len() { keys[(elts[i] - 1) / 2] = vec![mk_public_key(Ciphertext::new())]; i += 1; }
        let gk = mk_galois_keys(mk_kswitch_keys(key_pid, keys));
        let mut ct = mk_ciphertext(2, 2, 32, vec![0; 128], first, 1.0, false, 1);
        unsafe { GAL_MOD = 64; }
        let mut step: isize = -15; let mut composed = 0;
        while step <= 15 {
            if step == -13 || step == -11 || step == -9 || step >= 11 {
                unsafe { GAL_ACC = 1; GAL_CALLS = 0; }
                ev.rotate_internal(&mut ct, step, &gk);
                let want = gt.get_elt_from_step(step);
                assert!(unsafe { GAL_ACC } == want % 64);
                assert!(unsafe { GAL_CALLS } >= 1);
                if unsafe { GAL_CALLS } >= 2 { composed += 1; }
            }
            step += 1;
        }
        kani::cover!(composed >= 4);
        std::mem::forget(ev); std::mem::forget(ctx); std::mem::forget(cd); std::mem::forget(gk);
    }

    /// stands for "the operation started computing": the first arithmetic step of BFV multiplication (reached only if the representation guard let the operands through)
    fn computed_on_refused_operand(_polys: &mut [u64], _pcount: usize, _degree: usize, _tables: &[crate::util::NTTTables]) {
        panic!("computed on an operand that had to be refused");
    }

    // @harness id=C06 tier=quick unwind=14 timeout=2400 fs=4096
    // @desc operands in a representation the operation does not accept are refused: BFV multiply with exactly one operand in NTT form (either one)
    // @bounds BFV N=2, q={97,113} (chain to {97}); all canonical residues; which operand is in NTT form: both cases (concrete per arm)
    // @funcs Evaluator::multiply_inplace, Evaluator::bfv_multiply, Evaluator::add_inplace, Evaluator::mod_switch_to_next_inplace
    // @expect panic:Invalid argument
    // @stubs HeContext::get_context_data -> linear search over the literal chain (HashMap lookup outside the claim); alloc::sync::Arc::drop_slow -> no-op (memory reclamation outside the claim); polysmallmod::ntt_lazy_ps -> marker that panics 'computed on an operand that had to be refused' (the first arithmetic step of bfv_multiply: keeps the exploration bounded when a guard is missing)
    #[kani::proof]
    #[kani::stub(crate::context::HeContext::get_context_data, crate::context::verif_v::get_context_data_stub)]
    #[kani::stub(alloc::sync::Arc::drop_slow, crate::verif_v::arc_drop_slow_noop)]
    #[kani::stub(crate::util::polysmallmod::ntt_lazy_ps, computed_on_refused_operand)]
    fn c06_wrong_representation_refused_multiply() {
        let ctx = lits::ctx_bfv_n2_2p1();
        let ev = mk_evaluator(ctx.clone());
        let pid = *ctx.first_parms_id();
        let a = sym2::<8>(); let b = sym2::<8>();
        let w: bool = kani::any();
        if w { let mut c1 = ct2(&a, pid, true, 1, 1.0); let c2 = ct2(&b, pid, false, 1, 1.0); ev.multiply_inplace(&mut c1, &c2); }
        else { let mut c1 = ct2(&a, pid, false, 1, 1.0); let c2 = ct2(&b, pid, true, 1, 1.0); ev.multiply_inplace(&mut c1, &c2); }
        kani::cover!(true, "AFTER: wrong-representation operand accepted");
    }

    // @harness id=C06 tier=quick unwind=14 timeout=2400 fs=4096
    // @desc operands in a representation the operation does not accept are refused: BFV add with operands in different representations, BFV mod switch of an NTT-form ciphertext
    // @bounds BFV N=2, q={97,113} (chain to {97}); all canonical residues; which operand is in NTT form: both cases (concrete per arm)
    // @funcs Evaluator::multiply_inplace, Evaluator::bfv_multiply, Evaluator::add_inplace, Evaluator::mod_switch_to_next_inplace
    // @expect panic:Invalid argument
    // @stubs HeContext::get_context_data -> linear search over the literal chain (HashMap lookup outside the claim); alloc::sync::Arc::drop_slow -> no-op (memory reclamation outside the claim); polysmallmod::ntt_lazy_ps -> marker that panics 'computed on an operand that had to be refused' (the first arithmetic step of bfv_multiply: keeps the exploration bounded when a guard is missing)
    #[kani::proof]
    #[kani::stub(crate::context::HeContext::get_context_data, crate::context::verif_v::get_context_data_stub)]
    #[kani::stub(alloc::sync::Arc::drop_slow, crate::verif_v::arc_drop_slow_noop)]
    #[kani::stub(crate::util::polysmallmod::ntt_lazy_ps, computed_on_refused_operand)]
    fn c06_wrong_representation_refused_add_modswitch() {
        let ctx = lits::ctx_bfv_n2_2p1();
        let ev = mk_evaluator(ctx.clone());
        let pid = *ctx.first_parms_id();
        let a = sym2::<8>(); let b = sym2::<8>();
        let w: bool = kani::any();
        if w { let mut c1 = ct2(&a, pid, true, 1, 1.0); let c2 = ct2(&b, pid, false, 1, 1.0); ev.add_inplace(&mut c1, &c2); }
        else { let mut x = ct2(&a, pid, true, 1, 1.0); ev.mod_switch_to_next_inplace(&mut x); }
        kani::cover!(true, "AFTER: wrong-representation operand accepted");
    }

    #[cfg(test)] include!("/verif/.build/playback/evaluator_v.rs");
}
