//! Verification harnesses compiled into heathcliff::util/number_theory as child module `verif_v`.
#![allow(unused, dead_code, non_snake_case)]
use super::*;

#[cfg(kani)]
mod proofs {
    use super::*;

    // @harness id=C04 tier=quick unwind=34 timeout=900
    // @desc naf(v): the terms sum to v, every term is +-2^k, exponents strictly increase and no two are adjacent (non-adjacent form); naf(-v) = -naf(v)
    // @bounds every v in -15..15 (enumerated by the symbolic executor as concrete cases: Vec growth with a symbolic loop exhausts CBMC's memory); rotation steps for N <= 32
    // @funcs naf
    #[kani::proof]
    fn c04_naf() {
        let mut v: i32 = -15;
        while v <= 15 {
            let r = naf(v);
            let mut sum = 0i32; let mut last_k: i32 = -2; let mut i = 0;
            while i < r.len() {
                let t = r[i]; sum += t;
                let a = t.unsigned_abs();
                assert!(a != 0 && a & (a - 1) == 0);
                let k = a.trailing_zeros() as i32;
                assert!(k > last_k + 1);
                last_k = k; i += 1;
            }
            assert!(sum == v);
            // antisymmetry: naf(-v) is the term-wise negation of naf(v)
            let rn = naf(-v);
            assert!(rn.len() == r.len());
            let mut i = 0; while i < r.len() { assert!(rn[i] == -r[i]); i += 1; }
            v += 1;
        }
        kani::cover!(true);
    }

    // @harness id=C08 tier=quick unwind=26 timeout=1800
    // @desc gcd(x,y) divides both and equals the xgcd gcd; xgcd returns Bezout coefficients (g = a*x + b*y); try_invert_u64_mod_u64 returns the inverse exactly when gcd = 1; are_coprime agrees
    // @bounds every pair 1 <= x, y < 24 (enumerated by the symbolic executor as concrete cases: the recursive gcd with symbolic operands exhausts CBMC's memory)
    // @funcs gcd, xgcd, try_invert_u64_mod_u64, are_coprime
    #[kani::proof]
    fn c08_gcd_xgcd_small() {
        let mut x = 1u64;
        while x < 24 {
            let mut y = 1u64;
            while y < 24 {
                let (g, a, b) = xgcd(x, y);
                assert!(g > 0 && x % g == 0 && y % g == 0);
                assert!(a * x as i64 + b * y as i64 == g as i64);
                assert!(gcd(x, y) == g);
                assert!(are_coprime(x, y) == (g == 1));
                let mut inv = 0u64;
                let ok = try_invert_u64_mod_u64(x, y, &mut inv);
                if y > 1 { assert!(ok == (g == 1)); }
                if ok && y > 1 { assert!(inv < y && (inv * x) % y == 1); }
                y += 1;
            }
            x += 1;
        }
        kani::cover!(true);
    }

    #[cfg(test)] include!("/verif/.build/playback/util_number_theory_v.rs");
}
