//! Verification harnesses compiled into heathcliff::util::rns as child module `verif_v`.
#![allow(unused, dead_code, non_snake_case)]
use super::*;
use crate::verif_v::{Lit, verif_struct};

use crate::util::NTTTables;
verif_struct!(RNSBase, "crate::util::verif_v::rns::mk_rns_base", mk_rns_base, {
    base: Vec<Modulus>, base_prod: Vec<u64>, punctured_prod: Vec<Vec<u64>>,
    inv_punctured_prod_mod_base: Vec<MultiplyU64ModOperand> });
/// `BaseConverter` is a private type: its literal is passed as a tuple of public parts.
pub(crate) type BCParts = (RNSBase, RNSBase, Vec<Vec<u64>>);
fn bc(p: BCParts) -> BaseConverter { BaseConverter { ibase: p.0, obase: p.1, base_change_matrix: p.2 } }
impl Lit for BaseConverter {
    fn lit(&self) -> String { format!("({},\n{},\n{})", self.ibase.lit(), self.obase.lit(), self.base_change_matrix.lit()) }
}
#[allow(clippy::too_many_arguments)]
pub(crate) fn mk_rns_tool(coeff_count: usize, base_q: RNSBase, base_B: RNSBase, base_Bsk: RNSBase, base_Bsk_m_tilde: RNSBase, base_t_gamma: Option<RNSBase>, base_q_to_Bsk_conv: BCParts, base_q_to_m_tilde_conv: BCParts, base_B_to_q_conv: BCParts, base_B_to_m_sk_conv: BCParts, base_q_to_t_gamma_conv: Option<BCParts>, base_q_to_t_conv: Option<BCParts>, inv_prod_q_mod_Bsk: Vec<MultiplyU64ModOperand>, neg_inv_prod_q_mod_m_tilde: MultiplyU64ModOperand, inv_prod_B_mod_m_sk: MultiplyU64ModOperand, inv_gamma_mod_t: Option<MultiplyU64ModOperand>, prod_B_mod_q: Vec<u64>, inv_m_tilde_mod_Bsk: Vec<MultiplyU64ModOperand>, prod_q_mod_Bsk: Vec<u64>, neg_inv_q_mod_t_gamma: Option<Vec<MultiplyU64ModOperand>>, prod_t_gamma_mod_q: Option<Vec<MultiplyU64ModOperand>>, inv_q_last_mod_q: Vec<MultiplyU64ModOperand>, base_Bsk_ntt_tables: Vec<NTTTables>, m_tilde: Modulus, m_sk: Modulus, t: Modulus, gamma: Modulus, inv_q_last_mod_t: u64) -> RNSTool {
    RNSTool { coeff_count, base_q, base_B, base_Bsk, base_Bsk_m_tilde, base_t_gamma, base_q_to_Bsk_conv: bc(base_q_to_Bsk_conv), base_q_to_m_tilde_conv: bc(base_q_to_m_tilde_conv), base_B_to_q_conv: bc(base_B_to_q_conv), base_B_to_m_sk_conv: bc(base_B_to_m_sk_conv), base_q_to_t_gamma_conv: base_q_to_t_gamma_conv.map(bc), base_q_to_t_conv: base_q_to_t_conv.map(bc), inv_prod_q_mod_Bsk, neg_inv_prod_q_mod_m_tilde, inv_prod_B_mod_m_sk, inv_gamma_mod_t, prod_B_mod_q, inv_m_tilde_mod_Bsk, prod_q_mod_Bsk, neg_inv_q_mod_t_gamma, prod_t_gamma_mod_q, inv_q_last_mod_q, base_Bsk_ntt_tables, m_tilde, m_sk, t, gamma, inv_q_last_mod_t }
}
impl Lit for RNSTool {
    fn lit(&self) -> String {
        let parts: Vec<String> = vec![self.coeff_count.lit(), self.base_q.lit(), self.base_B.lit(), self.base_Bsk.lit(), self.base_Bsk_m_tilde.lit(), self.base_t_gamma.lit(), self.base_q_to_Bsk_conv.lit(), self.base_q_to_m_tilde_conv.lit(), self.base_B_to_q_conv.lit(), self.base_B_to_m_sk_conv.lit(), self.base_q_to_t_gamma_conv.lit(), self.base_q_to_t_conv.lit(), self.inv_prod_q_mod_Bsk.lit(), self.neg_inv_prod_q_mod_m_tilde.lit(), self.inv_prod_B_mod_m_sk.lit(), self.inv_gamma_mod_t.lit(), self.prod_B_mod_q.lit(), self.inv_m_tilde_mod_Bsk.lit(), self.prod_q_mod_Bsk.lit(), self.neg_inv_q_mod_t_gamma.lit(), self.prod_t_gamma_mod_q.lit(), self.inv_q_last_mod_q.lit(), self.base_Bsk_ntt_tables.lit(), self.m_tilde.lit(), self.m_sk.lit(), self.t.lit(), self.gamma.lit(), self.inv_q_last_mod_t.lit()];
        format!("crate::util::verif_v::rns::mk_rns_tool(\n{})", parts.join(",\n"))
    }
}
