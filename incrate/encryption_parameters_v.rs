//! Verification harnesses compiled into heathcliff::encryption::parameters as child module `verif_v`.
#![allow(unused, dead_code, non_snake_case)]
use super::*;
use crate::verif_v::{Lit, verif_struct};

impl Lit for SchemeType { fn lit(&self) -> String { format!("crate::SchemeType::{:?}", self) } }
impl Lit for SecurityLevel { fn lit(&self) -> String { format!("crate::SecurityLevel::{:?}", self) } }
impl Lit for ErrorType { fn lit(&self) -> String { format!("crate::encryption_parameters::ErrorType::{:?}", self) } }
verif_struct!(EncryptionParameters, "crate::encryption_parameters::verif_v::mk_parms", mk_parms, {
    scheme: SchemeType, poly_modulus_degree: usize, coeff_modulus: Vec<Modulus>, plain_modulus: Modulus,
    parms_id: ParmsID, use_special_prime_for_encryption: bool });
verif_struct!(EncryptionParameterQualifiers, "crate::encryption_parameters::verif_v::mk_qualifiers", mk_qualifiers, {
    parameter_error: ErrorType, using_fft: bool, using_ntt: bool, using_batching: bool,
    using_fast_plain_lift: bool, using_descending_modulus_chain: bool, sec_level: SecurityLevel });
