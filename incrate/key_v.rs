//! Verification harnesses compiled into heathcliff::key as child module `verif_v`.
#![allow(unused, dead_code, non_snake_case)]
use super::*;
use crate::verif_v::{Lit, verif_struct};

verif_struct!(SecretKey, "crate::key::verif_v::mk_secret_key", mk_secret_key, { sk: Plaintext });
verif_struct!(PublicKey, "crate::key::verif_v::mk_public_key", mk_public_key, { pk: Ciphertext });
verif_struct!(KSwitchKeys, "crate::key::verif_v::mk_kswitch_keys", mk_kswitch_keys, { parms_id: ParmsID, keys: Vec<Vec<PublicKey>> });
verif_struct!(RelinKeys, "crate::key::verif_v::mk_relin_keys", mk_relin_keys, { keys: KSwitchKeys });
verif_struct!(GaloisKeys, "crate::key::verif_v::mk_galois_keys", mk_galois_keys, { keys: KSwitchKeys });

pub(crate) fn mk_keygen(context: Arc<HeContext>, secret_key: SecretKey, secret_key_array: Vec<u64>) -> KeyGenerator {
    KeyGenerator { context, secret_key, secret_key_array: RwLock::new(secret_key_array), sk_generated: true }
}
pub(crate) fn keygen_sk_array_len(k: &KeyGenerator) -> usize { k.secret_key_array.read().unwrap().len() }
