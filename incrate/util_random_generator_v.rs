//! Verification harnesses compiled into heathcliff::util::random::generator as child module `verif_v`.
#![allow(unused, dead_code, non_snake_case)]
use super::*;
use crate::verif_v::{Lit, verif_struct};

impl Lit for PRNGSeed { fn lit(&self) -> String { format!("crate::util::PRNGSeed({})", self.0.lit()) } }
verif_struct!(BlakeRNGFactory, "crate::util::verif_v::random_generator::mk_rng_factory", mk_rng_factory, {
    use_random_seed: bool, seed: PRNGSeed });
/// Direct construction of a generator state (buffer contents become the symbolic randomness).
pub(crate) fn mk_blake_rng(buffer: [u8; BUFFER_SIZE], seed: PRNGSeed, counter: u64, buffer_current: usize) -> BlakeRNG {
    BlakeRNG { buffer, seed, counter, buffer_current }
}
pub(crate) const BUF: usize = BUFFER_SIZE;

#[cfg(kani)]
mod proofs {
    use super::*;
    use rand::RngCore;

    /// `refill_buffer` replacement: the next block of a harness-global symbolic stream (two blocks).
    /// BLAKE3 itself (output quality, dependence on the seed) is outside the claim.
    static mut BLOCKS: [[u8; BUFFER_SIZE]; 2] = [[0; BUFFER_SIZE]; 2];
    fn refill_stub(this: &mut BlakeRNG) {
        unsafe { this.buffer = BLOCKS[(this.counter & 1) as usize]; }
        this.buffer_current = 0;
        this.counter = this.counter.wrapping_add(1);
    }
    fn stream_at(i: usize) -> u8 { unsafe { BLOCKS[i / BUFFER_SIZE][i % BUFFER_SIZE] } }

    fn mk_gen(pos: usize) -> BlakeRNG {
        // stream: block 0 symbolic in its last 24 bytes, block 1 symbolic in its first 24 bytes (the window all reads below touch)
        let w0: [u8; 24] = kani::any(); let w1: [u8; 24] = kani::any();
        let mut b0 = [0u8; BUFFER_SIZE];
        let mut i = 0; while i < 24 { b0[BUFFER_SIZE - 24 + i] = w0[i]; unsafe { BLOCKS[0][BUFFER_SIZE - 24 + i] = w0[i]; BLOCKS[1][i] = w1[i]; } i += 1; }
        // state as left by refill #1 (counter = 1, buffer = block 0)
        mk_blake_rng(b0, PRNGSeed([0; 64]), 1, pos)
    }
    fn chunk_case(pos: usize, l1: usize, l2: usize) {
        let mut g = mk_gen(pos);
        let mut d1 = [0u8; 16]; let mut d2 = [0u8; 16];
        g.fill_bytes(&mut d1[..l1]); g.fill_bytes(&mut d2[..l2]);
        let k: usize = kani::any(); kani::assume(k < 16);
        kani::cover!(k < l2);
        if k < l1 { assert!(d1[k] == stream_at(pos + k)); }
        if k < l2 { assert!(d2[k] == stream_at(pos + l1 + k)); }
        assert!(g.counter == if pos + l1 + l2 > BUFFER_SIZE { 2 } else { 1 });
        assert!(g.buffer_current == (pos + l1 + l2 - 1) % BUFFER_SIZE + 1 || l1 + l2 == 0);
    }
    fn word_case(pos: usize, wide: bool) {
        let mut g = mk_gen(pos);
        let n = if wide { 8 } else { 4 };
        let a = (pos + n - 1) & !(n - 1);
        let at = if a + n > BUFFER_SIZE { BUFFER_SIZE } else { a };
        let mut e = 0u64; let mut i = 0;
        while i < n { e |= (stream_at(at + i) as u64) << (8 * i); i += 1; }
        let w = if wide { g.next_u64() } else { g.next_u32() as u64 };
        kani::cover!(e != 0);
        assert!(w == e);
        assert!(g.counter == if at == BUFFER_SIZE { 2 } else { 1 });
    }

    // @harness id=C16 tier=quick unwind=26 timeout=1800
    // @desc fill_bytes output is the seeded stream regardless of chunking: two consecutive reads return exactly stream[pos..pos+l1] and stream[pos+l1..pos+l1+l2], also when a read straddles the 4096-byte refill or starts exactly at it; the refill counter advances once per refill; next_u32/next_u64 return the little-endian words at the next 4-/8-aligned stream offset (refilling when the aligned word does not fit)
    // @bounds generator states and chunkings (pos, l1, l2) in {(4080,3,5), (4090,3,8), (4090,6,16), (4088,8,8), (4096,16,5), (4093,3,1), (4072,16,16), (4089,6,7), (4095,1,4), (4092,3,1), (4095,5,0) -- the last four make a read START on the last byte of the buffer} and word reads at pos in {4083, 4089, 4093, 4096}; stream bytes symbolic in the 48-byte window around the refill boundary
    // @funcs BlakeRNG::fill_bytes, BlakeRNG::next_u32, BlakeRNG::next_u64
    // @stubs BlakeRNG::refill_buffer -> next block of a symbolic stream (BLAKE3 XOF outside the claim)
    #[kani::proof]
    #[kani::stub(super::BlakeRNG::refill_buffer, refill_stub)]
    fn c16_fill_bytes_chunking() {
        let c: u8 = kani::any();
        match c {
            0 => chunk_case(4080, 3, 5), 1 => chunk_case(4090, 3, 8), 2 => chunk_case(4090, 6, 16), 3 => chunk_case(4088, 8, 8),
            4 => chunk_case(4096, 16, 5), 5 => chunk_case(4093, 3, 1), 6 => chunk_case(4072, 16, 16),
            12 => chunk_case(4089, 6, 7), 13 => chunk_case(4095, 1, 4), 14 => chunk_case(4092, 3, 1), 15 => chunk_case(4095, 5, 0),
            7 => word_case(4083, true), 8 => word_case(4089, true), 9 => word_case(4093, false), 10 => word_case(4096, false), _ => word_case(4096, true),
        }
    }

    #[cfg(test)] include!("/verif/.build/playback/util_random_generator_v.rs");
}
