//! Verification harnesses compiled into heathcliff::util::random::generator as child module `verif_v`.
#![allow(unused, dead_code, non_snake_case)]
use super::*;
use crate::verif_v::{Lit, verif_struct};

impl Lit for PRNGSeed { fn lit(&self) -> String { format!("crate::util::PRNGSeed({})", self.0.lit()) } }
verif_struct!(BlakeRNGFactory, "crate::util::verif_v::random_generator::mk_rng_factory", mk_rng_factory, {
    use_random_seed: bool, seed: PRNGSeed });
/// Direct construction of a generator state (buffer contents become the symbolic randomness).
pub(crate) fn mk_blake_rng(buffer: [u8; BUFFER_SIZE], seed: PRNGSeed, counter: u64, buffer_current: usize) -> BlakeRNG {
    BlakeRNG { buffer, seed, counter, buffer_current }
}
pub(crate) const BUF: usize = BUFFER_SIZE;

#[cfg(kani)]
mod proofs {
    use super::*;
    use rand::RngCore;

    /// `refill_buffer` replacement: the next block of a harness-global symbolic stream (two blocks).
    /// BLAKE3 itself (output quality, dependence on the seed) is outside the claim.
    static mut BLOCKS: [[u8; BUFFER_SIZE]; 2] = [[0; BUFFER_SIZE]; 2];
    fn refill_stub(this: &mut BlakeRNG) {
        unsafe { this.buffer = BLOCKS[(this.counter & 1) as usize]; }
        this.buffer_current = 0;
        this.counter = this.counter.wrapping_add(1);
    }
    fn stream_at(i: usize) -> u8 { unsafe { BLOCKS[i / BUFFER_SIZE][i % BUFFER_SIZE] } }

    // @harness id=C16 tier=quick unwind=26 timeout=1800 memmodel=loop mcw=520
    // @desc fill_bytes output is the seeded stream prefix regardless of chunking: two consecutive reads of symbolic lengths (also straddling the 4096-byte refill) return exactly stream[pos..pos+l1] and stream[pos+l1..pos+l1+l2]; the refill counter advances once per refill; next_u32/next_u64 return the little-endian words at the next 4-/8-aligned stream offset
    // @bounds generator state: any buffer position in the last 24 bytes before a refill or right after one; read lengths 0..16 each; stream = two 4096-byte blocks, arbitrary in the 48-byte window around the refill boundary that the reads can touch (zero elsewhere)
    // @funcs BlakeRNG::fill_bytes, BlakeRNG::next_u32, BlakeRNG::next_u64, BlakeRNG::try_fill_bytes
    // @stubs BlakeRNG::refill_buffer -> next block of a symbolic stream (BLAKE3 XOF outside the claim)
    #[kani::proof]
    #[kani::stub(super::BlakeRNG::refill_buffer, refill_stub)]
    fn c16_fill_bytes_chunking() {
        // stream: block 0 symbolic in its last 24 bytes, block 1 symbolic in its first 24 bytes (the window all reads below touch)
        let w0: [u8; 24] = kani::any(); let w1: [u8; 24] = kani::any();
        let mut b0 = [0u8; BUFFER_SIZE];
        let mut i = 0; while i < 24 { b0[BUFFER_SIZE - 24 + i] = w0[i]; unsafe { BLOCKS[0][BUFFER_SIZE - 24 + i] = w0[i]; BLOCKS[1][i] = w1[i]; } i += 1; }
        // state as left by refill #1 (counter = 1, buffer = block 0), position near the end
        let pos: usize = kani::any(); kani::assume(pos >= BUFFER_SIZE - 24 && pos <= BUFFER_SIZE);
        let mut g = mk_blake_rng(b0, PRNGSeed([0; 64]), 1, pos);
        let c: u8 = kani::any();
        match c {
            0 => {
                let l1: usize = kani::any(); let l2: usize = kani::any(); kani::assume(l1 <= 16 && l2 <= 16);
                let mut d1 = [0u8; 16]; let mut d2 = [0u8; 16];
                g.fill_bytes(&mut d1[..l1]); g.fill_bytes(&mut d2[..l2]);
                let k: usize = kani::any(); kani::assume(k < 16);
                kani::cover!(pos + l1 < BUFFER_SIZE && pos + l1 + l2 > BUFFER_SIZE && k < l2);
                if k < l1 { assert!(d1[k] == stream_at(pos + k)); }
                if k < l2 { assert!(d2[k] == stream_at(pos + l1 + k)); }
                assert!(g.counter == if pos + l1 + l2 > BUFFER_SIZE { 2 } else { 1 });
            }
            1 => {
                let w = g.next_u64();
                let a = (pos + 7) & !7;
                let at = if a + 8 > BUFFER_SIZE { BUFFER_SIZE } else { a };
                let mut e = 0u64; let mut i = 0;
                while i < 8 { e |= (stream_at(at + i) as u64) << (8 * i); i += 1; }
                kani::cover!(at == BUFFER_SIZE);
                assert!(w == e);
                assert!(g.counter == if at == BUFFER_SIZE { 2 } else { 1 });
            }
            _ => {
                let w = g.next_u32();
                let a = (pos + 3) & !3;
                let at = if a + 4 > BUFFER_SIZE { BUFFER_SIZE } else { a };
                let mut e = 0u32; let mut i = 0;
                while i < 4 { e |= (stream_at(at + i) as u32) << (8 * i); i += 1; }
                assert!(w == e);
            }
        }
    }

    #[cfg(test)] include!("/verif/.build/playback/util_random_generator_v.rs");
}
