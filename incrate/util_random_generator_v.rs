//! Verification harnesses compiled into heathcliff::util::random::generator as child module `verif_v`.
#![allow(unused, dead_code, non_snake_case)]
use super::*;
use crate::verif_v::{Lit, verif_struct};

impl Lit for PRNGSeed { fn lit(&self) -> String { format!("crate::util::PRNGSeed({})", self.0.lit()) } }
verif_struct!(BlakeRNGFactory, "crate::util::verif_v::random_generator::mk_rng_factory", mk_rng_factory, {
    use_random_seed: bool, seed: PRNGSeed });
/// Direct construction of a generator state (buffer contents become the symbolic randomness).
pub(crate) fn mk_blake_rng(buffer: [u8; BUFFER_SIZE], seed: PRNGSeed, counter: u64, buffer_current: usize) -> BlakeRNG {
    BlakeRNG { buffer, seed, counter, buffer_current }
}
pub(crate) const BUF: usize = BUFFER_SIZE;
