#!/bin/bash
# usage: tools_eval_queue.sh <lane> <queue file>   (lines: <mutation> <property> [only-regex] [tier])
while read -r m id only tier; do [ -z "$m" ] && continue; /verif/tools_eval_par.sh $1 $m $id "$only" $tier; done < $2
