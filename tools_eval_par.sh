#!/bin/bash
# usage: tools_eval_par.sh <lane> <seeded dir name> <property> [only-regex] [tier]
# Evaluates one seeded mutation WITHOUT touching /repo: an isolated copy of the machinery (/tmp/vs_<lane>/verif) and a
# scratch worktree of /repo (/tmp/vs_<lane>/repo) with the hook paths rewritten to the copy. Several lanes can run in parallel.
# Output: /tmp/eval_<name>.log ; appends a line to /tmp/eval_summary.txt.  Remove lanes with: tools_eval_par.sh <lane> --clean
L=$1; N=$2; ID=$3; ONLY=$4; TIER=${5:-quick}
S=/tmp/vs_$L
if [ "$N" = "--clean" ]; then git -C /repo worktree remove --force $S/repo 2>/dev/null; rm -rf $S; git -C /repo worktree prune; exit 0; fi
mkdir -p $S
if [ ! -d $S/repo ]; then git -C /repo worktree add --detach $S/repo HEAD >/dev/null 2>&1 || exit 7; fi
git -C $S/repo checkout -q --detach $(git -C /repo rev-parse HEAD) && git -C $S/repo checkout -- .
rsync -a --delete --exclude .build --exclude .git --exclude evidence --exclude seeded /verif/ $S/verif/
mkdir -p $S/verif/.build/gen $S/verif/.build/playback $S/verif/.build/kani
for f in $S/verif/incrate/*_v.rs; do touch $S/verif/.build/playback/$(basename $f); done
if [ ! -d $S/verif/.build/kani/_deps ]; then if [ -d /verif/.build/kani/_deps ]; then cp -r /verif/.build/kani/_deps $S/verif/.build/kani/_deps; else mkdir -p $S/verif/.build/kani/_deps; cp -r /verif/.build/kani/C16/kani $S/verif/.build/kani/_deps/kani; rm -rf $S/verif/.build/kani/_deps/kani/*/debug/build/heathcliff* $S/verif/.build/kani/_deps/kani/*/debug/incremental; fi; fi
[ -d $S/verif/.build/native ] || cp -r /verif/.build/native $S/verif/.build/native
sed -i "s#/verif/\.build#$S/verif/.build#g" $S/verif/incrate/*.rs
git -C $S/repo apply /verif/seeded/$N/patch.diff || { echo "$N patch does not apply" >> /tmp/eval_summary.txt; exit 8; }
grep -rl '"/verif/incrate' $S/repo/src | xargs sed -i "s#\"/verif/incrate#\"$S/verif/incrate#"
cd $S/verif
if [ -n "$ONLY" ]; then VERIF_REPO=$S/repo timeout 5400 ./check $ID --tier $TIER --only "$ONLY" --no-evidence > /tmp/eval_$N.log 2>&1; else VERIF_REPO=$S/repo timeout 5400 ./check $ID --tier $TIER --no-evidence > /tmp/eval_$N.log 2>&1; fi
RC=$?
git -C $S/repo checkout -- .
echo "$N property=$ID only=$ONLY tier=$TIER rc=$RC $(grep -c '^VIOLATION' /tmp/eval_$N.log) violation lines; $(grep 'VIOLATION' /tmp/eval_$N.log | head -2 | tr '\n' ' ')" >> /tmp/eval_summary.txt
