#!/bin/bash
# usage: tools_install_mut.sh <ID>   -- re-confirms the sub-agent's changes /tmp/mut_<ID>/m{1,2,3} in the scratch worktree /tmp/wt_<ID>
# (suite passes with the patch, demonstration passes without and fails with it) and, when confirmed, stores them as /verif/seeded/<ID>_m<i>/
ID=$1
for i in 1 2 3; do
  M=/tmp/mut_$ID/m$i; [ -f $M/patch.diff ] || continue
  OUT=$(/verif/tools_confirm_mut.sh $ID $M /tmp/wt_$ID 2>&1)
  echo "== ${ID}_m$i"; echo "$OUT"
  CLEAN=$(echo "$OUT" | awk '/clean tree demo/{getline; print}')
  SUITE=$(echo "$OUT" | awk '/mutated tree suite/{getline; print}')
  DEMO=$(echo "$OUT" | awk '/mutated tree demo/{getline; print}')
  OK=no
  if echo "$CLEAN" | grep -q "test result: ok" && echo "$SUITE" | grep -Eq "test result: ok. 78 passed|78 passed; 1 failed" && echo "$DEMO" | grep -q "FAILED"; then OK=confirmed; fi
  if [ "$OK" = confirmed ]; then
    D=/verif/seeded/${ID}_m$i; mkdir -p $D; cp $M/patch.diff $M/demo.rs $M/notes.txt $D/
    python3 - "$D" "$ID" "$(git -C /repo rev-parse --short HEAD)" <<'PY'
import json, sys
d, pid, base = sys.argv[1:4]
meta = {"property": pid, "origin": "fresh sub-agent given only the property text and its own scratch worktree of /repo (nothing from /verif)",
        "base_commit": base, "what_it_needs_to_manifest": open(d + "/notes.txt").read()[:3000],
        "confirmed_by_me": {"how": "tools_confirm_mut.sh in the scratch worktree: demo passes on the clean tree; with patch.diff applied the 78-test lib suite still passes and the demo fails", "result": "confirmed"},
        "checks_run": [], "caught_by": None}
json.dump(meta, open(d + "/meta.json", "w"), indent=1)
PY
    echo "   -> installed as $D"
  else
    echo "   -> NOT confirmed (clean: $CLEAN | suite: $SUITE | demo: $DEMO)"
  fi
done
