#!/bin/bash
# Offline setup: pre-builds dependency artifacts (kani target dir template + native generator build). Idempotent.
set -e
cd "$(dirname "$0")"
export CARGO_NET_OFFLINE=true
mkdir -p .build/gen .build/playback .build/kani
for f in incrate/*_v.rs; do touch .build/playback/$(basename $f); done
# 1. native literal generator (also proves the hooks compile natively)
(cd /repo && RUSTFLAGS="--cfg heathcliff_verif" cargo test --offline --lib --target-dir /verif/.build/native verif_gen_ >/verif/.build/setup_gen.log 2>&1) || { tail -30 .build/setup_gen.log; exit 1; }
# 2. kani dependency template: codegen only, no harness selected beyond a trivial filter
(cd /repo && RUSTFLAGS="-Zcrate-attr=feature(allocator_api)" cargo kani --target-dir /verif/.build/kani/_deps --only-codegen --no-assertion-reach-checks -Z stubbing --harness c08_set_bit_uint >/verif/.build/setup_kani.log 2>&1) || { tail -30 .build/setup_kani.log; exit 1; }
rm -rf .build/kani/_deps/kani/*/debug/build/heathcliff* .build/kani/_deps/kani/*/debug/incremental
echo "setup ok"
