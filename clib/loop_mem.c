/* Loop-based memcpy/memmove models, linked (per harness, `memmodel=loop`) in place of CBMC's builtin ones.
 * Reason (measured, CBMC 6.11): the builtin memcpy lowers to __CPROVER_array_copy/replace through a VLA
 * `char src_n[n]`; when n is SYMBOLIC the copied bytes are wrong (a copy of 8 bytes leaves dst unchanged),
 * which produced counterexamples that do not reproduce natively. Constant-size copies are unaffected.
 * Loops: memcpy.0 / memmove.0,1 = 8-byte words (n % 8 == 0), memcpy.1 / memmove.2,3 = bytes. */
typedef __CPROVER_size_t size_t;
void *memcpy(void *dst, const void *src, size_t n)
{
__CPROVER_HIDE:;
  __CPROVER_precondition(__CPROVER_r_ok(src, n), "memcpy source region readable");
  __CPROVER_precondition(__CPROVER_w_ok(dst, n), "memcpy destination region writeable");
  if((n & 7) == 0)
  {
    size_t m = n >> 3;
    for(size_t i = 0; i < m; i++)
      ((unsigned long long *)dst)[i] = ((const unsigned long long *)src)[i];
  }
  else
  {
    for(size_t i = 0; i < n; i++)
      ((char *)dst)[i] = ((const char *)src)[i];
  }
  return dst;
}

void *memmove(void *dst, const void *src, size_t n)
{
__CPROVER_HIDE:;
  __CPROVER_precondition(__CPROVER_r_ok(src, n), "memmove source region readable");
  __CPROVER_precondition(__CPROVER_w_ok(dst, n), "memmove destination region writeable");
  if((n & 7) == 0)
  {
    size_t m = n >> 3;
    if(__CPROVER_POINTER_OBJECT(dst) == __CPROVER_POINTER_OBJECT(src) && __CPROVER_POINTER_OFFSET(dst) > __CPROVER_POINTER_OFFSET(src))
    { for(size_t i = m; i > 0; i--) ((unsigned long long *)dst)[i - 1] = ((const unsigned long long *)src)[i - 1]; }
    else
    { for(size_t i = 0; i < m; i++) ((unsigned long long *)dst)[i] = ((const unsigned long long *)src)[i]; }
  }
  else
  {
    if(__CPROVER_POINTER_OBJECT(dst) == __CPROVER_POINTER_OBJECT(src) && __CPROVER_POINTER_OFFSET(dst) > __CPROVER_POINTER_OFFSET(src))
    { for(size_t i = n; i > 0; i--) ((char *)dst)[i - 1] = ((const char *)src)[i - 1]; }
    else
    { for(size_t i = 0; i < n; i++) ((char *)dst)[i] = ((const char *)src)[i]; }
  }
  return dst;
}
