#!/bin/bash
# usage: tools_run1.sh <target-dir> <harness> <unwind> [timeout]  -- debug helper: hand-driven pipeline for one harness
TD=$1; H=$2; U=$3; TO=${4:-600}
F=$(ls $TD/kani/x86_64-unknown-linux-gnu/debug/build/heathcliff/*/out/*${H}.symtab.out | head -1)
M=$(echo $F | sed 's/.*__\(.*\)\.symtab\.out/_\1/')
O=/tmp/run1_$H.out
goto-cc $F /root/.kani/kani-0.68.0/library/kani/kani_lib.c -o $O && goto-cc $O --function $M -o $O && goto-instrument --add-library --no-malloc-may-fail $O $O >/dev/null && goto-instrument --generate-function-body-options assert-false-assume-false --generate-function-body '.*' --drop-unused-functions $O $O > /dev/null 2>&1 && goto-instrument --ensure-one-backedge-per-target $O $O >/dev/null
UW=""; [ "$U" != "0" ] && UW="--unwind $U --unwinding-assertions"
/usr/bin/time -v timeout $TO cbmc --no-malloc-may-fail --no-undefined-shift-check --no-signed-overflow-check --nan-check --no-self-loops-to-assumptions --no-pointer-primitive-check --object-bits 16 --sat-solver cadical --slice-formula $UW $O ${@:5} 2>&1 | grep -v "SUCCESS$" | tail -${TAIL:-25}
