// Counterexample(s) found by CBMC for harness `c02_add_sub_sizes_2_3` (incrate/evaluator_v.rs), property C02.
// module-file: evaluator_v.rs
// failed checks: evaluator::verif_v::proofs::addsub_case::<4, 6>.assertion.11
// Replay natively against /repo:  /verif/check C02 --replay /verif/evidence/replays/C02/c02_add_sub_sizes_2_3.rs
#[test]
fn kani_concrete_playback_c02_add_sub_sizes_2_3_0() {
    let concrete_vals: Vec<Vec<u8>> = vec![
        vec![1],
        vec![1],
        vec![0],
        vec![25],
        vec![0],
        vec![6],
        vec![64],
        vec![40],
        vec![96],
        vec![40],
        vec![8],
        vec![4, 0, 0, 0, 0, 0, 0, 0],
        vec![1],
    ];
    kani::concrete_playback_run(concrete_vals, c02_add_sub_sizes_2_3);
}
