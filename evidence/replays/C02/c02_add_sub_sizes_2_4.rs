// Counterexample(s) found by CBMC for harness `c02_add_sub_sizes_2_4` (incrate/evaluator_v.rs), property C02.
// module-file: evaluator_v.rs
// failed checks: evaluator::verif_v::proofs::addsub_case::<4, 8>.assertion.11
// Replay natively against /repo:  /verif/check C02 --replay /verif/evidence/replays/C02/c02_add_sub_sizes_2_4.rs
#[test]
fn kani_concrete_playback_c02_add_sub_sizes_2_4_0() {
    let concrete_vals: Vec<Vec<u8>> = vec![
        vec![1],
        vec![5],
        vec![5],
        vec![5],
        vec![5],
        vec![51],
        vec![55],
        vec![96],
        vec![96],
        vec![96],
        vec![96],
        vec![96],
        vec![96],
        vec![7, 0, 0, 0, 0, 0, 0, 0],
        vec![1],
    ];
    kani::concrete_playback_run(concrete_vals, c02_add_sub_sizes_2_4);
}
