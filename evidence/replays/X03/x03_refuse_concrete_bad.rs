// Counterexample(s) found by CBMC for harness `x03_refuse_concrete_bad` (incrate/evaluator_v.rs), property X03.
// module-file: evaluator_v.rs
// failed checks: evaluator::Evaluator::check_ciphertext.assertion.2
// Replay natively against /repo:  /verif/check X03 --replay /verif/evidence/replays/X03/x03_refuse_concrete_bad.rs
#[test]
fn kani_concrete_playback_x03_refuse_concrete_bad_0() {
    let concrete_vals: Vec<Vec<u8>> = vec![
        vec![0],
        vec![0],
        vec![0],
        vec![0],
        vec![0],
        vec![0],
        vec![0],
        vec![0],
    ];
    kani::concrete_playback_run(concrete_vals, x03_refuse_concrete_bad);
}
