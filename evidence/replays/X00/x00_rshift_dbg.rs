// Counterexample(s) found by CBMC for harness `x00_rshift_dbg` (incrate/util_basic_v.rs), property X00.
// module-file: util_basic_v.rs
// failed checks: util::basic::verif_v::proofs::x00_rshift_dbg.assertion.3
// Replay natively against /repo:  /verif/check X00 --replay /verif/evidence/replays/X00/x00_rshift_dbg.rs
#[test]
fn kani_concrete_playback_x00_rshift_dbg_0() {
    let concrete_vals: Vec<Vec<u8>> = vec![
        vec![3, 0, 0, 0, 0, 0, 0, 0],
        vec![3, 0, 0, 0, 0, 0, 0, 0],
        vec![3, 0, 0, 0, 0, 0, 0, 0],
        vec![2, 0, 0, 0, 0, 0, 0, 0],
        vec![64, 0, 0, 0, 0, 0, 0, 0],
    ];
    kani::concrete_playback_run(concrete_vals, x00_rshift_dbg);
}
