// Counterexample(s) found by CBMC for harness `x00_copy_sym` (incrate/util_basic_v.rs), property X00.
// module-file: util_basic_v.rs
// failed checks: util::basic::verif_v::proofs::x00_copy_sym.assertion.4
// Replay natively against /repo:  /verif/check X00 --replay /verif/evidence/replays/X00/x00_copy_sym.rs
#[test]
fn kani_concrete_playback_x00_copy_sym_0() {
    let concrete_vals: Vec<Vec<u8>> = vec![
        vec![3, 0, 0, 0, 0, 0, 0, 0],
        vec![3, 0, 0, 0, 0, 0, 0, 0],
        vec![3, 0, 0, 0, 0, 0, 0, 0],
        vec![1, 0, 0, 0, 0, 0, 0, 0],
    ];
    kani::concrete_playback_run(concrete_vals, x00_copy_sym);
}
