// Counterexample(s) found by CBMC for harness `x00_rshift_dbg_syms` (incrate/util_basic_v.rs), property X00.
// module-file: util_basic_v.rs
// failed checks: util::basic::verif_v::proofs::x00_rshift_dbg_syms.assertion.3
// Replay natively against /repo:  /verif/check X00 --replay /verif/evidence/replays/X00/x00_rshift_dbg_syms.rs
#[test]
fn kani_concrete_playback_x00_rshift_dbg_syms_0() {
    let concrete_vals: Vec<Vec<u8>> = vec![
        vec![255, 255, 255, 255, 255, 255, 255, 255],
        vec![255, 255, 255, 255, 255, 255, 255, 255],
        vec![255, 255, 255, 255, 255, 255, 255, 255],
        vec![64, 0, 0, 0, 0, 0, 0, 0],
    ];
    kani::concrete_playback_run(concrete_vals, x00_rshift_dbg_syms);
}
