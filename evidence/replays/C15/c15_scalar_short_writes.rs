// Counterexample(s) found by CBMC for harness `c15_scalar_short_writes` (incrate/serialize_v.rs), property C15.
// module-file: serialize_v.rs
// failed checks: serialize::verif_v::proofs::c15_scalar_short_writes.assertion.1
// Replay natively against /repo:  /verif/check C15 --replay /verif/evidence/replays/C15/c15_scalar_short_writes.rs
#[test]
fn kani_concrete_playback_c15_scalar_short_writes_0() {
    let concrete_vals: Vec<Vec<u8>> = vec![
        vec![0],
        vec![6, 0, 0, 0, 0, 0, 0, 0],
        vec![255, 255, 255, 255, 255, 255, 255, 255],
        vec![0, 255, 255, 1, 255, 255, 255, 5],
    ];
    kani::concrete_playback_run(concrete_vals, c15_scalar_short_writes);
}
