// Counterexample(s) found by CBMC for harness `c05_refusals` (incrate/evaluator_v.rs), property C05.
// module-file: evaluator_v.rs
// failed checks: evaluator::Evaluator::mod_switch_to_inplace.assertion.1, evaluator::Evaluator::mod_switch_to_next.assertion.1, evaluator::verif_v::proofs::sym2::<8>.unwind.0
// Replay natively against /repo:  /verif/check C05 --replay /verif/evidence/replays/C05/c05_refusals.rs
#[test]
fn kani_concrete_playback_c05_refusals_0() {
    let concrete_vals: Vec<Vec<u8>> = vec![
        vec![1],
        vec![63],
        vec![63],
        vec![63],
        vec![63],
    ];
    kani::concrete_playback_run(concrete_vals, c05_refusals);
}
#[test]
fn kani_concrete_playback_c05_refusals_1() {
    let concrete_vals: Vec<Vec<u8>> = vec![
        vec![0],
        vec![0],
        vec![0],
        vec![0],
        vec![0],
    ];
    kani::concrete_playback_run(concrete_vals, c05_refusals);
}
#[test]
fn kani_concrete_playback_c05_refusals_2() {
    let concrete_vals: Vec<Vec<u8>> = vec![
        vec![255],
        vec![63],
        vec![63],
        vec![63],
        vec![63],
        vec![63],
        vec![63],
        vec![63],
        vec![63],
    ];
    kani::concrete_playback_run(concrete_vals, c05_refusals);
}
