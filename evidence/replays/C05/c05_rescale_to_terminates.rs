// Counterexample(s) found by CBMC for harness `c05_rescale_to_terminates` (incrate/evaluator_v.rs), property C05.
// module-file: evaluator_v.rs
// failed checks: evaluator::verif_v::proofs::sym2::<8>.unwind.0
// Replay natively against /repo:  /verif/check C05 --replay /verif/evidence/replays/C05/c05_rescale_to_terminates.rs
#[test]
fn kani_concrete_playback_c05_rescale_to_terminates_0() {
    let concrete_vals: Vec<Vec<u8>> = vec![
        vec![0],
        vec![0],
        vec![0],
        vec![0],
        vec![0],
        vec![0],
        vec![0],
        vec![0],
    ];
    kani::concrete_playback_run(concrete_vals, c05_rescale_to_terminates);
}
