// Counterexample(s) found by CBMC for harness `c08_shift_family` (incrate/util_basic_v.rs), property C08.
// module-file: util_basic_v.rs
// failed checks: util::basic::verif_v::proofs::c08_shift_family.assertion.26
// Replay natively against /repo:  /verif/check C08 --replay /verif/evidence/replays/C08/c08_shift_family.rs
#[test]
fn kani_concrete_playback_c08_shift_family_0() {
    let concrete_vals: Vec<Vec<u8>> = vec![
        vec![5, 4, 158, 25, 154, 145, 95, 100],
        vec![0, 92, 12, 64, 132, 12, 0, 64],
        vec![3, 92, 12, 64, 132, 12, 0, 64],
        vec![2, 0, 0, 0, 0, 0, 0, 0],
        vec![64, 0, 0, 0, 0, 0, 0, 0],
    ];
    kani::concrete_playback_run(concrete_vals, c08_shift_family);
}
