// Counterexample(s) found by CBMC for harness `c08_multiply_uint_len1` (incrate/util_basic_v.rs), property C08.
// module-file: util_basic_v.rs
// failed checks: util::basic::verif_v::proofs::c08_multiply_uint_len1.assertion.6
// Replay natively against /repo:  /verif/check C08 --replay /verif/evidence/replays/C08/c08_multiply_uint_len1.rs
#[test]
fn kani_concrete_playback_c08_multiply_uint_len1_0() {
    let concrete_vals: Vec<Vec<u8>> = vec![
        vec![255, 255, 255, 255, 255, 255, 255, 255],
        vec![255, 255, 255, 255, 255, 255, 255, 127],
        vec![1, 0, 0, 0, 0, 0, 0, 0],
        vec![1, 0, 0, 0, 0, 0, 0, 0],
    ];
    kani::concrete_playback_run(concrete_vals, c08_multiply_uint_len1);
}
