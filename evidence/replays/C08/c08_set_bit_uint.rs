// Counterexample(s) found by CBMC for harness `c08_set_bit_uint` (incrate/util_basic_v.rs), property C08.
// module-file: util_basic_v.rs
// failed checks: util::basic::verif_v::proofs::c08_set_bit_uint.assertion.9, util::basic::set_bit_uint.assertion.3
// Replay natively against /repo:  /verif/check C08 --replay /verif/evidence/replays/C08/c08_set_bit_uint.rs
#[test]
fn kani_concrete_playback_c08_set_bit_uint_0() {
    let concrete_vals: Vec<Vec<u8>> = vec![
        vec![0, 0, 0, 0, 255, 255, 255, 127],
        vec![0, 0, 0, 128, 255, 255, 255, 255],
        vec![254, 255, 255, 127, 255, 255, 255, 63],
        vec![3, 0, 0, 0, 0, 0, 0, 0],
        vec![31, 0, 0, 0, 0, 0, 0, 0],
    ];
    kani::concrete_playback_run(concrete_vals, c08_set_bit_uint);
}
#[test]
fn kani_concrete_playback_c08_set_bit_uint_1() {
    let concrete_vals: Vec<Vec<u8>> = vec![
        vec![255, 255, 255, 255, 255, 255, 255, 255],
        vec![255, 255, 255, 255, 255, 255, 255, 255],
        vec![255, 255, 255, 255, 255, 255, 255, 255],
        vec![3, 0, 0, 0, 0, 0, 0, 0],
        vec![63, 0, 0, 0, 0, 0, 0, 0],
    ];
    kani::concrete_playback_run(concrete_vals, c08_set_bit_uint);
}
