// Counterexample(s) found by CBMC for harness `c08_div2_uint_mod_carry` (incrate/util_basic_v.rs), property C08.
// module-file: util_basic_v.rs
// failed checks: util::basic::set_bit_uint.assertion.3
// Replay natively against /repo:  /verif/check C08 --replay /verif/evidence/replays/C08/c08_div2_uint_mod_carry.rs
#[test]
fn kani_concrete_playback_c08_div2_uint_mod_carry_0() {
    let concrete_vals: Vec<Vec<u8>> = vec![
        vec![7, 0, 0, 0, 0, 0, 0, 128, 254, 255, 255, 255, 255, 255, 255, 201],
        vec![5, 0, 0, 0, 2, 0, 0, 128, 1, 0, 0, 0, 0, 0, 0, 150],
    ];
    kani::concrete_playback_run(concrete_vals, c08_div2_uint_mod_carry);
}
