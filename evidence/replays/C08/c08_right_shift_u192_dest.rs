// Counterexample(s) found by CBMC for harness `c08_right_shift_u192_dest` (incrate/util_basic_v.rs), property C08.
// module-file: util_basic_v.rs
// failed checks: util::basic::verif_v::proofs::c08_right_shift_u192_dest.assertion.7
// Replay natively against /repo:  /verif/check C08 --replay /verif/evidence/replays/C08/c08_right_shift_u192_dest.rs
#[test]
fn kani_concrete_playback_c08_right_shift_u192_dest_0() {
    let concrete_vals: Vec<Vec<u8>> = vec![
        vec![0, 0, 0, 0, 0, 0, 0, 0],
        vec![0, 0, 0, 0, 0, 0, 0, 0],
        vec![0, 0, 0, 0, 0, 0, 0, 0],
        vec![32, 0, 0, 0, 0, 0, 0, 0],
        vec![0, 0, 0, 0, 0, 0, 0, 0],
        vec![0, 0, 0, 128, 0, 0, 0, 0],
        vec![0, 0, 0, 128, 0, 0, 0, 0],
    ];
    kani::concrete_playback_run(concrete_vals, c08_right_shift_u192_dest);
}
