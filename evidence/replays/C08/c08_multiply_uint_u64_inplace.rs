// Counterexample(s) found by CBMC for harness `c08_multiply_uint_u64_inplace` (incrate/util_basic_v.rs), property C08.
// module-file: util_basic_v.rs
// failed checks: util::basic::verif_v::proofs::c08_multiply_uint_u64_inplace.assertion.8
// Replay natively against /repo:  /verif/check C08 --replay /verif/evidence/replays/C08/c08_multiply_uint_u64_inplace.rs
#[test]
fn kani_concrete_playback_c08_multiply_uint_u64_inplace_0() {
    let concrete_vals: Vec<Vec<u8>> = vec![
        vec![1],
        vec![7],
        vec![2],
        vec![1],
        vec![2, 0, 0, 0, 0, 0, 0, 0],
        vec![6],
        vec![0],
    ];
    kani::concrete_playback_run(concrete_vals, c08_multiply_uint_u64_inplace);
}
