// Counterexample(s) found by CBMC for harness `c04_naf` (incrate/util_number_theory_v.rs), property C04.
// module-file: util_number_theory_v.rs
// failed checks: util::number_theory::verif_v::proofs::c04_naf.assertion.6
// Replay natively against /repo:  /verif/check C04 --replay /verif/evidence/replays/C04/c04_naf.rs
#[test]
fn kani_concrete_playback_c04_naf_0() {
    let concrete_vals: Vec<Vec<u8>> = vec![
    ];
    kani::concrete_playback_run(concrete_vals, c04_naf);
}
