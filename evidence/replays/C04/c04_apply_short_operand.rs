// Counterexample(s) found by CBMC for harness `c04_apply_short_operand` (incrate/util_galois_v.rs), property C04.
// module-file: util_galois_v.rs
// failed checks: util::galois::GaloisTool::apply.assertion.2
// Replay natively against /repo:  /verif/check C04 --replay /verif/evidence/replays/C04/c04_apply_short_operand.rs
#[test]
fn kani_concrete_playback_c04_apply_short_operand_0() {
    let concrete_vals: Vec<Vec<u8>> = vec![
        vec![7, 0, 0, 0, 0, 0, 0, 0],
        vec![15],
        vec![0],
        vec![0],
        vec![0],
        vec![255],
    ];
    kani::concrete_playback_run(concrete_vals, c04_apply_short_operand);
}
