// Counterexample(s) found by CBMC for harness `c06_mod_switch_forms_agree` (incrate/evaluator_v.rs), property C06.
// module-file: evaluator_v.rs
// failed checks: evaluator::verif_v::proofs::c06_mod_switch_forms_agree.assertion.2
// Replay natively against /repo:  /verif/check C06 --replay /verif/evidence/replays/C06/c06_mod_switch_forms_agree.rs
#[test]
fn kani_concrete_playback_c06_mod_switch_forms_agree_0() {
    let concrete_vals: Vec<Vec<u8>> = vec![
        vec![33],
        vec![50],
        vec![41],
        vec![95],
        vec![91],
        vec![7],
        vec![100],
        vec![41],
        vec![0],
        vec![0],
        vec![0],
        vec![0],
        vec![55],
        vec![55],
        vec![55],
        vec![55],
        vec![0, 0, 0, 0, 0, 0, 240, 63],
        vec![0, 0, 0, 0, 0, 0, 0, 0],
        vec![2, 0, 0, 0, 0, 0, 0, 0],
    ];
    kani::concrete_playback_run(concrete_vals, c06_mod_switch_forms_agree);
}
