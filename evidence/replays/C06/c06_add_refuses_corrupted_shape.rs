// Counterexample(s) found by CBMC for harness `c06_add_refuses_corrupted_shape` (incrate/evaluator_v.rs), property C06.
// module-file: evaluator_v.rs
// failed checks: <usize as std::slice::SliceIndex<[u64]>>::index.assertion.1, evaluator::Evaluator::check_ciphertext.assertion.2
// Replay natively against /repo:  /verif/check C06 --replay /verif/evidence/replays/C06/c06_add_refuses_corrupted_shape.rs
#[test]
fn kani_concrete_playback_c06_add_refuses_corrupted_shape_0() {
    let concrete_vals: Vec<Vec<u8>> = vec![
        vec![128],
        vec![0],
        vec![0],
        vec![0],
        vec![0],
        vec![0],
        vec![0],
        vec![0],
        vec![0],
        vec![0],
    ];
    kani::concrete_playback_run(concrete_vals, c06_add_refuses_corrupted_shape);
}
#[test]
fn kani_concrete_playback_c06_add_refuses_corrupted_shape_1() {
    let concrete_vals: Vec<Vec<u8>> = vec![
        vec![0],
        vec![96],
        vec![96],
        vec![96],
        vec![96],
        vec![96],
        vec![96],
        vec![96],
        vec![96],
        vec![0],
    ];
    kani::concrete_playback_run(concrete_vals, c06_add_refuses_corrupted_shape);
}
