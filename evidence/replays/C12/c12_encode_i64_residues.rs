// Counterexample(s) found by CBMC for harness `c12_encode_i64_residues` (incrate/ckks_encoder_v.rs), property C12.
// module-file: ckks_encoder_v.rs
// failed checks: ckks_encoder::verif_v::proofs::c12_encode_i64_residues.assertion.9
// Replay natively against /repo:  /verif/check C12 --replay /verif/evidence/replays/C12/c12_encode_i64_residues.rs
#[test]
fn kani_concrete_playback_c12_encode_i64_residues_0() {
    let concrete_vals: Vec<Vec<u8>> = vec![
        vec![64, 248],
        vec![1, 0, 0, 0, 0, 0, 0, 0],
        vec![1, 0, 0, 0, 0, 0, 0, 0],
    ];
    kani::concrete_playback_run(concrete_vals, c12_encode_i64_residues);
}
