#!/bin/bash
# usage: tools_bg.sh <log tag> <check args...>  -- runs ./check in the background (debug helper), log /tmp/<tag>.log, status /tmp/run_many.status
T=$1; shift
A=$(printf '%q ' "$@")
cd /verif; nohup bash -c "timeout 7200 ./check $A > /tmp/$T.log 2>&1; echo \"$T rc=\$?\" >> /tmp/run_many.status" >/dev/null 2>&1 &
