#!/usr/bin/env python3
"""usage: tools_settier.py <tier> <harness names...>  -- rewrites the tier= key in the @harness line of each named harness"""
import sys, re, glob
tier = sys.argv[1]; names = set(sys.argv[2:])
for path in glob.glob('/verif/incrate/*_v.rs'):
    s = open(path).read(); changed = False
    for n in list(names):
        m = re.search(r"fn %s\(\)" % re.escape(n), s)
        if not m: continue
        hl = s.rfind("// @harness", 0, m.start()); e = s.index("\n", hl)
        line = re.sub(r"tier=\w+", "tier=" + tier, s[hl:e])
        s = s[:hl] + line + s[e:]; changed = True; names.discard(n)
    if changed: open(path, 'w').write(s)
if names: print("NOT FOUND:", names)
