"""Literal-table generator: a native build of /repo's working tree (--cfg heathcliff_verif) runs the REAL
constructors (HeContext::new -> validate, RNSTool::new, NTTTables::new, GaloisTool::new, Modulus::new ...)
for the parameter sets and prints their private state as Rust expressions into /verif/.build/gen.
Regenerated on every check run, so a changed constructor changes the tables the solver sees."""
import os, subprocess, time, json, fcntl, hashlib
ROOT = os.path.dirname(os.path.dirname(os.path.abspath(__file__)))
REPO = os.environ.get("VERIF_REPO", "/repo")
GEN = os.path.join(ROOT, ".build", "gen")

def ensure(pid, seed, tier):
    os.makedirs(GEN, exist_ok=True)
    t0 = time.time()
    env = dict(os.environ); env["CARGO_NET_OFFLINE"] = "true"; env["RUSTFLAGS"] = "--cfg heathcliff_verif"
    env["VERIF_SEED"] = str(seed)
    log = os.path.join(ROOT, ".build", "gen_%s.log" % pid)
    # serialise generator runs of concurrently running checks (shared native target dir + output files)
    with open(os.path.join(ROOT, ".build", "gen.lock"), "w") as lk:
        fcntl.flock(lk, fcntl.LOCK_EX)
        with open(log, "w") as lf:
            r = subprocess.run(["cargo", "test", "--offline", "--lib", "--target-dir", os.path.join(ROOT, ".build", "native"),
                                "verif_gen_"], cwd=REPO, env=env, stdout=lf, stderr=subprocess.STDOUT)
    if r.returncode != 0:
        tail = open(log, errors="replace").read()[-2500:]
        return {"error": "native generator build/run failed:\n" + tail}
    info = {"generated": True, "wall_s": round(time.time() - t0, 1), "files": {}}
    for f in sorted(os.listdir(GEN)):
        p = os.path.join(GEN, f)
        if f.endswith(".rs"):
            info["files"][f] = {"bytes": os.path.getsize(p), "sha256": hashlib.sha256(open(p, "rb").read()).hexdigest()[:16]}
    try:
        info["parameter_sets"] = json.load(open(os.path.join(GEN, "ctx.json")))
    except Exception:
        pass
    return info
