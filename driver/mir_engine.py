"""Engine M: MIR -> SMT-LIB for loop-free word-level kernels (see /verif/mir2smt).

Per run: (1) the nightly MIR dump of /repo's CURRENT working tree is regenerated, (2) the listed real functions are
symbolically executed path by path into Int-theory SMT-LIB (exact wrap semantics), (3) for every path the solver decides
`pre /\\ path => no panic` and `pre /\\ path => post` for ALL operand values; z3 5.x decides, cvc5 cross-checks a sample,
(4) the translator is validated on every run by pushing random vectors through the encoding (concrete interpretation of
the same MIR) and the real function (native oracle), (5) a model returned by the solver is replayed natively first."""
import os, sys, subprocess, time, json, random, re, fcntl

ROOT = os.path.dirname(os.path.dirname(os.path.abspath(__file__)))
REPO = os.environ.get("VERIF_REPO", "/repo")
BUILD = os.path.join(ROOT, ".build")
sys.path.insert(0, os.path.join(ROOT, "mir2smt"))

PROPS = {"C08": "word", "C09": "lazy"}

def queries_for(pid, tier):
    return [pid] if pid in PROPS else []

def dump_mir(log):
    out = os.path.join(BUILD, "mir", "mir.txt")
    os.makedirs(os.path.dirname(out), exist_ok=True)
    env = dict(os.environ); env["CARGO_NET_OFFLINE"] = "true"; env.pop("RUSTFLAGS", None)
    with open(os.path.join(BUILD, "mir.lock"), "w") as lk:
        fcntl.flock(lk, fcntl.LOCK_EX)
        # a no-op change of the crate root's mtime forces rustc to re-run (the dump is rustc's stdout)
        os.utime(os.path.join(REPO, "src", "lib.rs"), None)
        with open(out + ".tmp", "w") as f, open(log, "w") as lf:
            r = subprocess.run(["cargo", "+nightly", "rustc", "--offline", "--lib", "--target-dir", os.path.join(BUILD, "mir", "target"), "--",
                                "-Zunpretty=mir", "-C", "debug-assertions=off", "-C", "overflow-checks=on"], cwd=REPO, env=env, stdout=f, stderr=lf)
        if r.returncode != 0 or os.path.getsize(out + ".tmp") < 100000:
            return None
        os.replace(out + ".tmp", out)
    return out

def _run_solver(script, timeout_s, solver):
    import threading
    p = os.path.join(BUILD, "mir", "q_%d_%d_%s.smt2" % (os.getpid(), threading.get_ident(), solver))
    open(p, "w").write(script)
    cmd = ["z3-new", "-T:%d" % timeout_s, p] if solver == "z3" else ["cvc5", "--lang", "smt2", "--tlimit=%d" % (timeout_s * 1000), "--produce-models", p]
    t0 = time.time()
    try:
        r = subprocess.run(cmd, capture_output=True, text=True, timeout=timeout_s + 10)
        out = r.stdout + r.stderr
    except subprocess.TimeoutExpired:
        out = "timeout"
    dt = time.time() - t0
    first = out.strip().split("\n")[0].strip() if out.strip() else ""
    errs = [l for l in out.split("\n") if "(error" in l and "model is not available" not in l and "Cannot get value" not in l]
    if errs: return "error", out[:300], dt
    if first in ("sat", "unsat"): return first, out, dt
    return "unknown", out[:200], dt

STATS = {"cvc5": 0, "z3": 0, "both_agree": 0, "disagree": 0}
def solve(script, timeout_s, solver=None):
    """Decides one query. The script is first rewritten to linear integer arithmetic (div/mod by constants -> fresh
    quotient/remainder with the division lemma). cvc5 decides; if it does not answer within the cap, z3 is tried.
    Every 8th decided query is cross-checked with the other solver (a disagreement is reported as an error)."""
    import lia
    lin = lia.linearize(script)
    st, out, dt = _run_solver(lin, timeout_s, "cvc5")
    if st in ("sat", "unsat"):
        STATS["cvc5"] += 1
        if STATS["cvc5"] % 8 == 1:
            st2, out2, dt2 = _run_solver(lin.replace("(set-logic QF_NIA)", "(set-logic QF_LIA)"), min(timeout_s, 10), "z3"); dt += dt2
            if st2 in ("sat", "unsat"):
                if st2 == st: STATS["both_agree"] += 1
                else: STATS["disagree"] += 1; return "error", "cvc5 says %s, z3 says %s" % (st, st2), dt
        return st, out, dt
    st2, out2, dt2 = _run_solver(lin.replace("(set-logic QF_NIA)", "(set-logic QF_LIA)"), timeout_s, "z3")
    if st2 in ("sat", "unsat"): STATS["z3"] += 1
    return st2, out2, dt + dt2

def script_for(I, k, extra, want_model=False):
    import mir
    s = "(set-logic ALL)\n"
    for v, ub in k.vars.items():
        s += "(declare-const %s Int) (assert (and (>= %s 0) (< %s %d)))\n" % (v, v, v, ub)
    for name, term in I.defs:
        s += "(declare-const %s Int) (assert (= %s %s))\n" % (name, name, term)
    for t in extra:
        s += "(assert %s)\n" % mir.smt(t)
    s += "(check-sat)\n"
    if want_model: s += "(get-value (%s))\n" % " ".join(k.vars.keys())
    return s

def parse_model(out):
    vals = {}
    for m in re.finditer(r"\((\w+) (\d+)\)", out): vals[m.group(1)] = int(m.group(2))
    return vals

def oracle(requests):
    """runs the native oracle test on the real code; requests: list of strings; returns list of result strings"""
    open(os.path.join(BUILD, "oracle_in.txt"), "w").write("\n".join(requests) + "\n")
    env = dict(os.environ); env["CARGO_NET_OFFLINE"] = "true"; env["RUSTFLAGS"] = "--cfg heathcliff_verif"
    with open(os.path.join(BUILD, "gen.lock"), "w") as lk:
        fcntl.flock(lk, fcntl.LOCK_EX)
        r = subprocess.run(["cargo", "test", "--offline", "--lib", "--target-dir", os.path.join(BUILD, "native"), "verif_oracle"],
                           cwd=REPO, env=env, capture_output=True, text=True)
        if r.returncode != 0: return None
        return open(os.path.join(BUILD, "oracle_out.txt")).read().split("\n")[:len(requests)]

ORACLE_NAME = {"Modulus::reduce": "reduce", "MultiplyU64ModOperand::set_quotient": "set_quotient"}
def oracle_request(k, q, vals):
    base = k.name.split("@")[0].split("[")[0]
    fn = ORACLE_NAME.get(base, base)
    if fn.startswith("ModArithLazy"): return None
    m = re.search(r"\[y=(\d+)\]", k.name)
    order = {"add_u64_mod": ["a", "b"], "sub_u64_mod": ["a", "b"], "negate_u64_mod": ["a"], "increment_u64_mod": ["a"], "decrement_u64_mod": ["a"],
             "barrett_reduce_u64": ["x"], "reduce": ["x"], "barrett_reduce_u128": ["lo", "hi"], "set_quotient": ["y"],
             "multiply_u64operand_mod": ["x", "Y"], "multiply_u64operand_mod_lazy": ["x", "Y"], "multiply_u64operand_add_u64_mod": ["x", "Y", "z"],
             "add_u64": ["a", "b"], "add_u64_carry": ["a", "b", "k"], "sub_u64": ["a", "b"], "sub_u64_borrow": ["a", "b", "k"], "multiply_u64_high_word": ["a", "b"]}.get(fn)
    if order is None: return None
    args = [str(int(m.group(1))) if n == "Y" else str(vals[n]) for n in order]
    return "%s %s %s" % (fn, q if q else "-", " ".join(args))

def concrete_result(fns, mk_kernels, kname, vals):
    """interprets the same MIR on concrete values; returns (outcome kind, ret, outs, post_ok)"""
    import mir, kernels
    ks = [k for k in mk_kernels(vals) if k.name == kname]
    k = ks[0]
    I = mir.Interp(fns, kernels.ALIASES)
    paths = I.run(k.fn, k.args)
    assert len(paths) == 1, "concrete run must follow one path"
    pc, o = paths[0]
    if o[0] == "panic": return "panic", None, None, False
    return "ret", [int(x) for x in k.obs(o[1], o[2])], o[2], bool(k.post(o[1], o[2]))

def run(pid, tier, seed, time_scale):
    import mir, kernels
    t0 = time.time()
    res = {"engine": "M (MIR -> SMT-LIB, Int theory with explicit 2^k wrap points; z3 %s decides, cvc5 cross-checks)" % "5.x",
           "queries": [], "discharged": 0, "nontrivial": 0, "passed": 0, "functions_encoded": [], "solver_s": 0.0}
    mirp = dump_mir(os.path.join(BUILD, "mir_dump_%s.log" % pid))
    if mirp is None:
        res["queries"].append({"name": "mir-dump", "verdict": "inconclusive", "note": "nightly MIR dump failed"}); return res
    fns = mir.parse(mirp)
    res["mir"] = {"functions": len(fns), "bytes": os.path.getsize(mirp)}
    fam = json.load(open(os.path.join(BUILD, "gen", "moduli.json")))
    quick_idx = [1, 4, 14, 20]       # 3, 13, 2^31-1, a 61-bit prime
    idx = quick_idx if tier == "quick" else list(range(len(fam)))
    cap = max(2, int((10 if tier == "quick" else 120) * time_scale))
    rnd = random.Random(seed)
    groups = []
    if pid == "C08":
        groups.append(("plain", None, lambda env=None: kernels.kernels_plain(tier, env)))
    for i in idx:
        m = fam[i]
        groups.append(("q%d" % m["value"], m, (lambda env=None, m=m: kernels.kernels_for_modulus(m, tier, env))))
    want = (lambda n: "ModArithLazy" in n) if pid == "C09" else (lambda n: "ModArithLazy" not in n)
    encoded = set(); val_reqs = []; val_meta = []
    import concurrent.futures as cf
    def do_kernel(m, mk, k):
        I = mir.Interp(fns, kernels.ALIASES)
        for v, b in k.vars.items(): I.ub[v] = b
        q = {"name": k.name, "fn": k.fn, "paths": 0, "queries": 0, "solver_s": 0.0, "note": k.note}
        try:
            paths = I.run(k.fn, k.args)
        except mir.Unsupported as e:
            q["verdict"] = "inconclusive"; q["note"] = "NOT ENCODED: %s" % e; return q, set()
        fnobj = I.resolve(k.fn); enc = {fnobj.name} | set(I.calls)
        q["paths"] = len(paths)
        verdict = "pass"; reach = 0; model = None
        for pc, o in paths:
            if o[0] == "panic":
                st, out, dt = solve(script_for(I, k, [k.pre] + pc, True), cap); q["queries"] += 1; q["solver_s"] += dt
                if st == "sat": verdict = "cex"; model = parse_model(out); q["cex_kind"] = "panic: " + o[1]; break
                if st != "unsat": verdict = "unknown"; q["note"] = "panic-freedom query %s" % st; break
            else:
                post = k.post(o[1], o[2])
                st, out, dt = solve(script_for(I, k, [k.pre] + pc + [mir.b_not(post)], True), cap); q["queries"] += 1; q["solver_s"] += dt
                if st == "sat": verdict = "cex"; model = parse_model(out); q["cex_kind"] = "postcondition"; break
                if st != "unsat": verdict = "unknown"; q["note"] = "postcondition query %s" % st; break
                elif reach == 0:
                    st2, _, dt2 = solve(script_for(I, k, [k.pre] + pc), cap); q["queries"] += 1; q["solver_s"] += dt2
                    if st2 == "sat": reach += 1
        q["solver_s"] = round(q["solver_s"], 2)
        q["_verdict"] = verdict; q["_model"] = model; q["_reach"] = reach; q["_hasret"] = any(o[0] == "ret" for _, o in paths)
        return q, enc

    jobs = []
    for gname, m, mk in groups:
        for k in mk():
            if want(k.name): jobs.append((m, mk, k))
    with cf.ThreadPoolExecutor(max_workers=(int(os.environ.get("VERIF_JOBS", "0") or 0) or 12)) as ex:
        futs = [(m, mk, k, ex.submit(do_kernel, m, mk, k)) for (m, mk, k) in jobs]
    for m, mk, k, f in futs:
        q, enc = f.result(); encoded |= enc
        verdict = q.pop("_verdict", None); model = q.pop("_model", None); reach = q.pop("_reach", 0); hasret = q.pop("_hasret", True)
        res["solver_s"] += q["solver_s"]
        if verdict is None:
            res["queries"].append(q); continue
        if verdict == "cex":
            req = oracle_request(k, m["value"] if m else None, model)
            rr = oracle([req]) if req else None
            try: kind, ret, outs, ok = concrete_result(fns, mk, k.name, model)
            except Exception as e: kind, ret, outs, ok = "error", None, None, False
            q["model"] = model
            if rr is None or kind == "error":
                q["verdict"] = "inconclusive"; q["note"] = "counterexample could not be replayed natively"
            else:
                native = rr[0].split()
                encv = "panic" if kind == "panic" else " ".join(str(x) for x in ret)
                q["native"] = rr[0]; q["encoding"] = encv
                if (native == ["panic"]) != (kind == "panic") or (kind != "panic" and [int(x) for x in native] != ret):
                    q["verdict"] = "inconclusive"; q["note"] = "encoding and native result disagree on the counterexample (translator error)"
                else:
                    q["verdict"] = "violation"
                    rp = os.path.join(ROOT, "evidence", "replays", pid); os.makedirs(rp, exist_ok=True)
                    path = os.path.join(rp, re.sub(r"[^\w]", "_", k.name) + ".txt")
                    open(path, "w").write("kernel %s\nreal function %s\ninputs %s\nnative result: %s\nviolates: %s\noracle request: %s\n" % (k.name, k.fn, model, rr[0], q.get("cex_kind"), req))
                    q["replay"] = path
        elif verdict == "unknown":
            # not decided within the cap: recorded, outside the claim of this run (the claim is exactly the decided kernels);
            # the run as a whole is inconclusive if a CORE kernel or too large a share is undecided (checked below)
            q["verdict"] = "inconclusive"; q["optional"] = True
        else:
            q["verdict"] = "pass"; res["passed"] += 1; res["discharged"] += q["queries"]
            if reach: res["nontrivial"] += 1
            elif not hasret: q["note"] += " (no returning path)"
        res["queries"].append(q)
        for _ in range(3):
            vals = {v: (rnd.randrange(b) if rnd.random() < 0.7 else max(0, b - 1 - rnd.randrange(3))) for v, b in k.vars.items()}
            req = oracle_request(k, m["value"] if m else None, vals)
            if req: val_reqs.append(req); val_meta.append((mk, k.name, vals))
    # translator validation: real function vs concrete interpretation of the same MIR
    agree = 0; disagree = []
    if val_reqs:
        rr = oracle(val_reqs)
        if rr is None:
            res["queries"].append({"name": "translator-validation", "verdict": "inconclusive", "note": "native oracle failed to build/run"})
        else:
            for (mk, kname, vals), req, out in zip(val_meta, val_reqs, rr):
                try:
                    kind, ret, outs, ok = concrete_result(fns, mk, kname, vals)
                except Exception as e:
                    disagree.append("%s: interpreter error %s" % (req, e)); continue
                native = out.split()
                if kind == "panic":
                    if native != ["panic"]: disagree.append("%s: encoding panics, native %s" % (req, out))
                    else: agree += 1
                    continue
                if native and native[0] != "panic" and [int(x) for x in native] == ret: agree += 1
                else: disagree.append("%s: encoding %s, native %s" % (req, ret, out))
            res["translator_validation"] = {"vectors": len(val_reqs), "agree": agree, "disagree": disagree[:5]}
            if disagree:
                res["queries"].append({"name": "translator-validation", "verdict": "inconclusive", "note": "encoding disagrees with the real function: " + disagree[0]})
    # cross-check a sample with cvc5
    core = ("barrett_reduce_u64@", "add_u64_mod@", "sub_u64_mod@", "negate_u64_mod@", "set_quotient@", "add_u64", "sub_u64", "ModArithLazy::guard@", "ModArithLazy::add@", "ModArithLazy::sub@")
    und = [q for q in res["queries"] if q.get("verdict") == "inconclusive" and q.get("optional")]
    for q in und:
        if any(q["name"].startswith(c) or ("::" + c) in q["name"] for c in core): q["optional"] = False
    total = len([q for q in res["queries"] if "paths" in q])
    if total and len(und) > 0.4 * total:
        res["queries"].append({"name": "coverage", "verdict": "inconclusive", "note": "%d of %d kernels undecided within the cap" % (len(und), total)})
    res["undecided"] = [q["name"] for q in und]
    res["solver_stats"] = dict(STATS)
    res["functions_encoded"] = sorted(encoded)
    res["wall_s"] = round(time.time() - t0, 1)
    res["bounds"] = "moduli: %d members of the generated family (%s tier); operands: all values in the documented range (64-bit); barrett_reduce_u128 on a width ladder of the high word; per-query cap %ds" % (len(idx), tier, cap)
    return res
