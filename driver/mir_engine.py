"""Engine M placeholder: MIR -> SMT-LIB (filled in later)."""
def queries_for(pid, tier):
    return []
def run(pid, tier, seed, time_scale):
    return None
