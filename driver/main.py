import sys, os, json, time, argparse, subprocess, re, hashlib

ROOT = os.path.dirname(os.path.dirname(os.path.abspath(__file__)))
sys.path.insert(0, os.path.dirname(os.path.abspath(__file__)))
import registry, kani_engine, replay, known

EVID = os.path.join(ROOT, "evidence")

def git_rev(path):
    try:
        r = subprocess.run(["git", "-C", path, "rev-parse", "--short", "HEAD"], capture_output=True, text=True)
        d = subprocess.run(["git", "-C", path, "status", "--porcelain", "--untracked-files=no"], capture_output=True, text=True)
        return r.stdout.strip() + ("+dirty" if d.stdout.strip() else "")
    except Exception:
        return "?"

def main(argv):
    ap = argparse.ArgumentParser()
    ap.add_argument("pid")
    ap.add_argument("--tier", default=os.environ.get("VERIF_TIER", "quick"), choices=["quick", "thorough", "deep"])
    ap.add_argument("--only", default=None, help="regex on harness names (debugging; evidence is marked partial)")
    ap.add_argument("--jobs", type=int, default=int(os.environ.get("VERIF_JOBS", "0")))
    ap.add_argument("--replay", default=None)
    ap.add_argument("--time-scale", type=float, default=float(os.environ.get("VERIF_TIME_SCALE", "1.0")))
    ap.add_argument("--no-evidence", action="store_true")
    a = ap.parse_args(argv)
    pid = a.pid
    seed = int(os.environ.get("VERIF_SEED", "0") or 0)
    os.environ["VERIF_SEED"] = str(seed)
    jobs = a.jobs or (os.cpu_count() or 4)
    t0 = time.time()

    if a.replay:
        return replay.replay_file(pid, a.replay)

    hs = registry.select(pid, a.tier)
    if a.only:
        rx = re.compile(a.only); hs = [h for h in hs if rx.search(h.name)]
    import mir_engine, gen
    m_queries = mir_engine.queries_for(pid, a.tier)
    if not hs and not m_queries:
        print("no checks registered for %s at tier %s" % (pid, a.tier)); return 2

    # 1. regenerate literal tables (native run of the real constructors) -- needed by K harnesses
    gen_info = gen.ensure(pid, seed, a.tier)
    if gen_info.get("error"):
        print("INCONCLUSIVE: literal generator failed: %s" % gen_info["error"]); return 2

    results = []; cg_s = 0.0
    if hs:
        def prog(r):
            print("  [K] %-58s %-12s %7.1fs  %s" % (r["harness"], r["verdict"], r["wall_s"], r.get("note", "")[:90]), flush=True)
        results, cg_s, ok = kani_engine.run_all(pid, hs, jobs, a.time_scale, prog)
        if not ok:
            print("INCONCLUSIVE: kani codegen failed, see %s" % os.path.join(kani_engine.BUILD, "run", pid, "codegen.log"))
            tail = open(os.path.join(kani_engine.BUILD, "run", pid, "codegen.log"), errors="replace").read()[-3000:]
            print(tail)
            return 2
    m_results = mir_engine.run(pid, a.tier, seed, a.time_scale) if m_queries else None

    # 2. classify
    hmap = {h.name: h for h in hs}
    kf = known.load()
    violations = []; known_hits = []; inconclusive = []; passed = []
    for r in results:
        h = hmap[r["harness"]]
        v = r["verdict"]
        if v == "pass":
            passed.append(r)
        elif v == "unwind" and "term" not in h.expect:
            # a failed unwinding assertion is a too-small bound unless termination within the bound IS the property
            inconclusive.append(r)
        elif v in ("fail", "unwind"):
            rp = replay.replay_counterexample(pid, h, r)
            r["replay"] = rp
            if rp["reproduced"]:
                k = known.match(kf, pid, h, r)
                if k:
                    known_hits.append((r, k))
                else:
                    violations.append(r)
            else:
                r["note"] = (r.get("note", "") + " | counterexample did not reproduce natively: " + rp.get("note", "")).strip()
                inconclusive.append(r)
        else:
            if h.optional:
                r["note"] = "(optional) " + r.get("note", "")
                passed_optional = r  # recorded, not counted
            else:
                inconclusive.append(r)
    if m_results:
        for q in m_results["queries"]:
            if q["verdict"] == "violation": violations.append({"harness": q["name"], "replay": q.get("replay"), "engine": "M", "failed": [q]})
            elif q["verdict"] == "inconclusive" and not q.get("optional"): inconclusive.append({"harness": q["name"], "note": q.get("note", ""), "engine": "M"})

    # 3. evidence
    wall = time.time() - t0
    checks = sum(r.get("checks", 0) for r in results)
    nonvac = [r for r in passed if r.get("covers") and all(v == "SATISFIED" for k, v in r["covers"].items() if not k.startswith("AFTER"))]
    # distinct non-trivial obligations: verification conditions of non-vacuous passed harnesses that survive CBMC's simplifier
    # (i.e. are decided by the SAT solver, not by constant propagation); at least the harness itself when CBMC reports no count
    nontriv = sum(max(1, r.get("cbmc_stats", {}).get("vccs_remaining", 0)) for r in nonvac)
    steps = sum(r.get("cbmc_stats", {}).get("steps", 0) for r in results)
    vccs = sum(r.get("cbmc_stats", {}).get("vccs", 0) for r in results)
    replays_done = len([r for r in results if isinstance(r.get("replay"), dict)])
    m_vectors = (m_results or {}).get("translator_validation", {}).get("agree", 0) if m_results else 0
    samples = []
    for r in results:
        h = hmap[r["harness"]]
        d = h.as_dict(); d.update({"verdict": r["verdict"], "cbmc_checks": r.get("checks", 0), "cbmc_stats": r.get("cbmc_stats", {}), "wall_s": r["wall_s"],
                                   "covers": r.get("covers", {}), "note": r.get("note", "")})
        if r.get("failed"): d["failed"] = r["failed"][:5]
        if r.get("replay"): d["replay"] = r["replay"]
        samples.append(d)
    cov = {
        "evaluations": checks + (m_results["discharged"] if m_results else 0),
        "distinct_nontrivial": nontriv + (m_results["nontrivial"] if m_results else 0),
        "rule": "evaluations = solver-decided obligations: CBMC properties (assertions, overflow, bounds, pointer, "
                "unwinding checks) of engine-K harnesses plus SMT queries of engine M, each decided for ALL values of the "
                "symbolic inputs inside the stated bounds. distinct_nontrivial = verification conditions that survive CBMC's "
                "simplifier (decided by the SAT solver rather than by constant propagation), summed over the passed harnesses "
                "whose kani::cover! reachability witnesses were all SATISFIED (so the pass is not vacuous), plus M queries whose "
                "precondition was shown satisfiable.",
        "states": max(1, vccs + (m_results["discharged"] if m_results else 0)),
        "transitions": max(1, steps),
        "traces_validated_against_impl": replays_done + m_vectors,
        "explanation": "bounded model checking has no explicit state graph; the level's keys are filled with what CBMC measures: "
                       "states = guarded program points at which a property is checked (verification conditions generated, plus "
                       "engine-M queries); transitions = SSA steps of the unwound program (one symbolic transition each) summed "
                       "over the harnesses; traces_validated_against_impl = counterexample traces replayed natively against the "
                       "real code in this run (0 when nothing failed) plus engine-M vectors on which the encoding and the real "
                       "function were compared.",
        "samples": samples,
        "engine_K": {"harnesses": len(results), "passed": len(passed), "codegen_s": round(cg_s, 1),
                     "solver_s": round(sum(r["wall_s"] for r in results), 1),
                     "toolchain": "kani 0.68.0 / cbmc 6.11.0 / cadical", "repo_rev": git_rev(kani_engine.REPO)},
        "literal_tables": gen_info,
        "inconclusive": [{"harness": r["harness"], "note": r.get("note", "")} for r in inconclusive],
        "known_findings_hit": [k["line"] for (_, k) in known_hits],
        "partial_run": bool(a.only),
    }
    if m_results:
        cov["engine_M"] = m_results
    ev = {"property_id": pid, "tier": "thorough" if a.tier != "quick" else "quick", "seed": seed, "level": "model_checking",
          "coverage": cov,
          "assumptions": sorted(set(s for h in hs for s in h.stubs)) + [
              "bounded claim: every verdict holds for all symbolic values inside each harness's stated bounds and says nothing outside",
              "dev-profile semantics (overflow checks on) as compiled by kani-compiler; CBMC/cadical and kani's std models are trusted"],
          "wall_s": round(wall, 2), "violations": len(violations)}
    if not a.no_evidence and not a.only:
        os.makedirs(EVID, exist_ok=True)
        with open(os.path.join(EVID, pid + ".json"), "w") as f:
            json.dump(ev, f, indent=1)

    # 4. report
    for (r, k) in known_hits:
        print("KNOWN-FINDING: property=%s %s" % (pid, k["text"]))
    for r in violations:
        rp = r.get("replay") or {}
        path = rp.get("path") if isinstance(rp, dict) else rp
        print("VIOLATION property=%s replay=%s" % (pid, path))
        for f in r.get("failed", [])[:3]:
            print("    %s: %s (%s)" % (r["harness"], f.get("description", ""), f.get("loc", "")))
    print("%s tier=%s: %d harnesses, %d passed, %d inconclusive, %d violations, %d known; %d solver obligations; %.0fs"
          % (pid, a.tier, len(results) + (len(m_results["queries"]) if m_results else 0), len(passed) + (m_results["passed"] if m_results else 0),
             len(inconclusive), len(violations), len(known_hits), cov["evaluations"], wall))
    if violations: return 1
    if inconclusive:
        for r in inconclusive: print("INCONCLUSIVE %s: %s" % (r["harness"], r.get("note", "")))
        return 2
    return 0
