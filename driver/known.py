"""known_findings.txt handling.

Line formats (one per line, '#' comments):
  known: property=<ID> harness=<harness name> site=<regex matched against 'description @ file:line' of failed checks> :: <what fails>
  fixed: property=<ID> <commit> <what failed>
A 'fixed' entry suppresses nothing. The file is never written at run time.
"""
import os, re
ROOT = os.path.dirname(os.path.dirname(os.path.abspath(__file__)))

def load():
    out = []
    p = os.path.join(ROOT, "known_findings.txt")
    if not os.path.exists(p): return out
    for ln in open(p):
        s = ln.strip()
        if not s or s.startswith("#") or not s.startswith("known:"): continue
        head, _, text = s[6:].partition("::")
        d = {"line": s, "text": text.strip()}
        for kv in head.split():
            k, _, v = kv.partition("=")
            d[k] = v
        out.append(d)
    return out

def match(kf, pid, h, r):
    """A reproduced violation is 'known' only if EVERY failed check of the harness matches the site regex of
    one entry for this property+harness (so a different violation of the same property is still reported)."""
    for k in kf:
        if k.get("property") != pid: continue
        if k.get("harness") and k["harness"] != h.name: continue
        rx = re.compile(k.get("site", ".*"))
        fails = r.get("failed") or []
        if r["verdict"] == "unwind":
            fails = [{"description": "unwinding assertion", "loc": u["loc"]} for u in r.get("unwind_failed", [])]
        if fails and all(rx.search("%s @ %s" % (f.get("description", ""), f.get("loc", ""))) for f in fails):
            return k
    return None
