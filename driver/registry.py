"""Harness registry: parsed from structured comments in /verif/incrate/*_v.rs.

A harness is declared as

    // @harness id=C08 tier=quick unwind=5 timeout=300 mem=12
    // @desc   free text (what is asserted)
    // @bounds free text (the bounds of the claim)
    // @funcs  comma separated list of real functions symbolically executed
    // @stubs  comma separated list of stubs/assumptions that are part of the claim
    // @expect pass | panic:<regex on failed property descriptions>
    #[kani::proof]
    fn name() { ... }

Keys of the first line: id (property), tier (quick|thorough|deep), unwind (0 = none given),
timeout (seconds of CBMC wall time), mem (GB address-space cap), optional=1 (an inconclusive
result of this harness is recorded but does not make the check inconclusive),
kf=<role> (key under which a violation of this harness is looked up in known_findings.txt).
"""
import re, glob, os

ROOT = os.path.dirname(os.path.dirname(os.path.abspath(__file__)))
INCRATE = os.path.join(ROOT, "incrate")

class Harness:
    def __init__(self):
        self.name = None; self.file = None; self.line = 0
        self.id = None; self.tier = "quick"; self.unwind = 0; self.timeout = 300; self.mem = 12
        self.optional = False; self.kf = None
        self.desc = ""; self.bounds = ""; self.funcs = []; self.stubs = []; self.expect = "pass"
        self.unwindset = []
        self.nondet_static = False
        self.fs = 0
        self.memmodel = 'builtin'
        self.replays = 1
        self.mcw = 0

    def as_dict(self):
        return {"harness": self.name, "file": os.path.relpath(self.file, ROOT) + ":" + str(self.line),
                "tier": self.tier, "unwind": self.unwind, "desc": self.desc, "bounds": self.bounds,
                "functions": self.funcs, "stubs_and_assumptions": self.stubs, "expect": self.expect}

_fn_re = re.compile(r"^\s*(?:pub(?:\([a-z]+\))?\s+)?fn\s+([A-Za-z0-9_]+)\s*\(")

def load_all():
    out = []
    for path in sorted(glob.glob(os.path.join(INCRATE, "*.rs"))):
        lines = open(path).read().split("\n")
        cur = None
        for i, ln in enumerate(lines):
            s = ln.strip()
            if s.startswith("// @harness"):
                cur = Harness(); cur.file = path
                for kv in s[len("// @harness"):].split():
                    k, _, v = kv.partition("=")
                    if k == "id": cur.id = v
                    elif k == "tier": cur.tier = v
                    elif k == "unwind": cur.unwind = int(v)
                    elif k == "timeout": cur.timeout = int(v)
                    elif k == "mem": cur.mem = int(v)
                    elif k == "optional": cur.optional = v not in ("0", "false")
                    elif k == "kf": cur.kf = v
                    elif k == "unwindset": cur.unwindset.append(v)
                    elif k == "fs": cur.fs = int(v)
                    elif k == "memmodel": cur.memmodel = v
                    elif k == "replays": cur.replays = int(v)
                    elif k == "mcw": cur.mcw = int(v)
                    else: raise SystemExit("%s:%d: unknown @harness key %s" % (path, i + 1, k))
            elif cur is not None and s.startswith("// @desc"): cur.desc += (" " if cur.desc else "") + s[8:].strip()
            elif cur is not None and s.startswith("// @bounds"): cur.bounds += (" " if cur.bounds else "") + s[10:].strip()
            elif cur is not None and s.startswith("// @funcs"): cur.funcs += [x.strip() for x in s[9:].split(",") if x.strip()]
            elif cur is not None and s.startswith("// @stubs"): cur.stubs += [x.strip() for x in s[9:].split(";") if x.strip()]
            elif cur is not None and s.startswith("// @expect"): cur.expect = s[10:].strip()
            elif cur is not None:
                m = _fn_re.match(ln)
                if m:
                    cur.name = m.group(1); cur.line = i + 1
                    if cur.id is None: raise SystemExit("%s:%d: harness without id" % (path, i + 1))
                    out.append(cur); cur = None
                elif s.startswith("#[") or s.startswith("//") or s == "":
                    pass
                else:
                    raise SystemExit("%s:%d: @harness block not followed by fn" % (path, i + 1))
    names = [h.name for h in out]
    dup = set(n for n in names if names.count(n) > 1)
    if dup: raise SystemExit("duplicate harness names: %s" % dup)
    return out

TIER_ORDER = {"quick": 0, "thorough": 1, "deep": 2}

def select(pid, tier):
    hs = [h for h in load_all() if h.id == pid and TIER_ORDER[h.tier] <= TIER_ORDER[tier]]
    return hs
