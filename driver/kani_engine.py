"""Engine K: Kani 0.68 / CBMC 6.11 on the real crate.

One `cargo kani --only-codegen` per property run over /repo's *current working tree*
(kani-compiler symbolically lowers the real functions + the in-crate harness modules), then the
driver runs Kani's own goto-cc / goto-instrument / cbmc pipeline per harness (exact flags as
printed by `cargo kani --verbose`) in parallel, each under a wall-clock and address-space cap.
"""
import os, sys, json, subprocess, time, glob, shutil, resource, re, concurrent.futures as cf

ROOT = os.path.dirname(os.path.dirname(os.path.abspath(__file__)))
REPO = os.environ.get("VERIF_REPO", "/repo")
BUILD = os.path.join(ROOT, ".build")
KANI_HOME = None

def kani_home():
    global KANI_HOME
    if KANI_HOME is None:
        c = sorted(glob.glob(os.path.expanduser("~/.kani/kani-*")))
        if not c: raise SystemExit("kani bundle not found under ~/.kani")
        KANI_HOME = c[-1]
    return KANI_HOME

def env_offline():
    e = dict(os.environ)
    e["CARGO_NET_OFFLINE"] = "true"
    # allocator_api: needed by the generic no-op stub of alloc::sync::Arc::drop_slow (see incrate/lib_v.rs)
    e["RUSTFLAGS"] = "-Zcrate-attr=feature(allocator_api)"
    return e

def codegen(pid, harnesses, log):
    """Compile /repo with kani-compiler for the given harness list. Returns {name: (goto_file, mangled)}."""
    td = os.path.join(BUILD, "kani", pid)
    os.makedirs(td, exist_ok=True)
    # reuse dependency artifacts built by setup (hard copy on first use)
    seed = os.path.join(BUILD, "kani", "_deps")
    if not os.path.isdir(os.path.join(td, "kani")) and os.path.isdir(os.path.join(seed, "kani")):
        shutil.rmtree(td, ignore_errors=True)
        subprocess.run(["cp", "-a", seed, td], check=True)
    for d in glob.glob(os.path.join(td, "kani", "*", "debug", "build", "heathcliff*")):
        shutil.rmtree(d, ignore_errors=True)
    cmd = ["cargo", "kani", "--target-dir", td, "--only-codegen", "--no-assertion-reach-checks", "-Z", "stubbing"]
    for h in harnesses:
        cmd += ["--harness", h.name]
    t0 = time.time()
    with open(log, "w") as lf:
        lf.write("$ " + " ".join(cmd) + "\n"); lf.flush()
        r = subprocess.run(cmd, cwd=REPO, env=env_offline(), stdout=lf, stderr=subprocess.STDOUT)
    if r.returncode != 0:
        return None, time.time() - t0
    metas = glob.glob(os.path.join(td, "kani", "*", "debug", "build", "heathcliff", "*", "out", "*.kani-metadata.json"))
    out = {}
    for m in metas:
        d = json.load(open(m))
        for ph in d.get("proof_harnesses", []):
            short = ph["pretty_name"].split("::")[-1]
            out[short] = (ph["goto_file"], ph["mangled_name"], ph.get("attributes", {}))
    return out, time.time() - t0

def _limits(mem_gb, cpu_s):
    def f():
        resource.setrlimit(resource.RLIMIT_AS, (mem_gb << 30, mem_gb << 30))
        os.setsid()
    return f

def _run(cmd, log, timeout, mem_gb):
    with open(log, "a") as lf:
        lf.write("$ " + " ".join(cmd) + "\n"); lf.flush()
        try:
            p = subprocess.Popen(cmd, stdout=lf, stderr=subprocess.STDOUT, preexec_fn=_limits(mem_gb, timeout))
            try:
                rc = p.wait(timeout=timeout)
            except subprocess.TimeoutExpired:
                try: os.killpg(p.pid, 9)
                except Exception: p.kill()
                p.wait()
                return "timeout"
        except Exception as e:
            lf.write("driver exception: %r\n" % (e,))
            return "error"
    return rc

CBMC_FLAGS = ["--no-malloc-may-fail", "--no-undefined-shift-check", "--no-signed-overflow-check", "--nan-check",
              "--no-self-loops-to-assumptions", "--no-pointer-primitive-check", "--object-bits", "16",
              "--sat-solver", "cadical", "--slice-formula", "--verbosity", "8"]

import threading
_RETRY_LOCK = threading.Lock()

def prepare(h, goto_file, mangled, workdir):
    os.makedirs(workdir, exist_ok=True)
    out = os.path.join(workdir, h.name + ".out")
    log = os.path.join(workdir, h.name + ".prep.log")
    open(log, "w").close()
    kl = os.path.join(kani_home(), "library", "kani", "kani_lib.c")
    srcs = [goto_file, kl]
    if h.memmodel == "loop":
        # CBMC 6.11's builtin memcpy is wrong for SYMBOLIC sizes (see clib/loop_mem.c)
        srcs.append(os.path.join(ROOT, "clib", "loop_mem.c"))
    steps = [
        ["goto-cc"] + srcs + ["-o", out],
        ["goto-cc", out, "--function", mangled, "-o", out],
        ["goto-instrument", "--add-library", "--no-malloc-may-fail", out, out],
        ["goto-instrument", "--generate-function-body-options", "assert-false-assume-false",
         "--generate-function-body", ".*", "--drop-unused-functions", out, out],
        ["goto-instrument", "--ensure-one-backedge-per-target", out, out],
    ]
    for s in steps:
        rc = _run(s, log, 900, 48)
        if rc != 0:
            # observed: `goto-instrument --ensure-one-backedge-per-target` needs ~30 GB for harnesses over the larger literal contexts;
            # two of them at once are killed by the kernel's OOM killer (status -9). The in-place output is only written at the
            # end, so the step is repeatable: retry once, one at a time
            with open(log, "a") as lf: lf.write("step failed with status %r; retrying once, serialized\n" % (rc,))
            with _RETRY_LOCK:
                time.sleep(3)
                rc = _run(s, log, 900, 48)
            if rc != 0:
                with open(log, "a") as lf: lf.write("step failed again with status %r\n" % (rc,))
                return None
    return out

def classify(prop):
    name = prop.get("property", "")
    parts = name.rsplit(".", 2)
    cls = parts[1] if len(parts) == 3 else "unknown"
    return cls

UNSUPPORTED_RE = re.compile(r"is not currently supported by Kani|Kani does not support|undefined function should be unreachable", re.I)

def parse_cbmc_stats(path):
    """Sizes reported by CBMC for one run: symex steps, VCCs generated / remaining after simplification, SAT variables / clauses."""
    st = {}
    try:
        txt = open(path, errors="replace").read()
    except Exception:
        return st
    x = re.findall(r"size of program expression: (\d+) steps", txt)
    if x: st["steps"] = int(x[-1])
    x = re.findall(r"Generated (\d+) VCC\(s\), (\d+) remaining after simplification", txt)
    if x: st["vccs"] = int(x[-1][0]); st["vccs_remaining"] = int(x[-1][1])
    x = re.findall(r"(\d+) variables, (\d+) clauses", txt)
    if x: st["sat_vars"] = max(int(a) for a, b in x); st["sat_clauses"] = max(int(b) for a, b in x)
    return st

def parse_cbmc_json(path):
    """Returns (props, status, errors). props = list of dict(property, cls, status, description, loc)."""
    txt = open(path, errors="replace").read()
    # strip driver '$ cmd' lines
    body = "\n".join(l for l in txt.split("\n") if not l.startswith("$ "))
    i = body.find("[")
    props, status, errors = [], None, []
    try:
        msgs = json.loads(body[i:])
    except Exception:
        # truncated output (timeout / OOM)
        return props, None, ["unparseable cbmc output"]
    for m in msgs:
        if not isinstance(m, dict): continue
        if "result" in m:
            for p in m["result"]:
                sl = p.get("sourceLocation", {})
                props.append({"property": p.get("property"), "cls": classify(p), "status": p.get("status"),
                              "description": p.get("description", ""),
                              "loc": "%s:%s" % (sl.get("file", "?"), sl.get("line", "?")), "function": sl.get("function", "")})
        if "cProverStatus" in m: status = m["cProverStatus"]
        if m.get("messageType") == "ERROR": errors.append(m.get("messageText", ""))
    return props, status, errors

def run_harness(h, goto_file, mangled, workdir, time_scale=1.0):
    """Runs the pipeline for one harness; returns a result dict."""
    t0 = time.time()
    res = {"harness": h.name, "verdict": None, "wall_s": 0.0, "checks": 0, "failed": [], "covers": {}, "note": ""}
    out = prepare(h, goto_file, mangled, workdir)
    if out is None:
        res["verdict"] = "inconclusive"; res["note"] = "goto-cc/goto-instrument failed"; res["wall_s"] = time.time() - t0
        return res
    log = os.path.join(workdir, h.name + ".cbmc.json")
    open(log, "w").close()
    cmd = ["cbmc"] + CBMC_FLAGS
    if h.unwind > 0:
        cmd += ["--unwind", str(h.unwind), "--unwinding-assertions"]
    for us in h.unwindset:
        cmd += ["--unwindset", us]
    if h.unwind > 0 and h.unwind < 40:
        # `==` on [u64; 4] parms ids is a 32-byte memcmp loop in CBMC's library model
        cmd += ["--unwindset", "memcmp.0:40"]
    if h.memmodel == "loop" and h.unwind > 0:
        w = h.mcw or h.unwind
        for lp in ("memcpy.0", "memmove.0", "memmove.1"):
            cmd += ["--unwindset", "%s:%d" % (lp, w)]
        for lp in ("memcpy.1", "memmove.2", "memmove.3"):
            cmd += ["--unwindset", "%s:%d" % (lp, 8 * w)]
    if h.fs > 0:
        # heap objects above 64 bytes are byte arrays to CBMC and are not constant-propagated unless
        # field sensitivity is extended (needed for everything read through Arc<ContextData>)
        cmd += ["--max-field-sensitivity-array-size", str(h.fs)]
    cmd += [out, "--json-ui"]
    rc = _run(cmd, log, int(h.timeout * time_scale), h.mem)
    res["wall_s"] = round(time.time() - t0, 2)
    if rc == "timeout":
        res["verdict"] = "inconclusive"; res["note"] = "cbmc timeout after %ds" % int(h.timeout * time_scale); return res
    props, status, errors = parse_cbmc_json(log)
    res["cbmc_stats"] = parse_cbmc_stats(log)
    if status is None:
        res["verdict"] = "inconclusive"; res["note"] = "cbmc ended without verdict (rc=%s; out of memory or crash): %s" % (rc, "; ".join(errors)[:300]); return res
    bad_status = [p for p in props if p["status"] not in ("SUCCESS", "FAILURE")]
    if bad_status or errors:
        res["verdict"] = "inconclusive"
        res["note"] = "solver error (%s): %s" % (bad_status[0]["status"] if bad_status else "ERROR", "; ".join(errors)[:200]); return res
    res["checks"] = len([p for p in props if p["cls"] != "cover"])
    covers = [p for p in props if p["cls"] == "cover"]
    unwind_fail = [p for p in props if p["cls"] in ("unwind", "recursion") and p["status"] == "FAILURE"]
    fails = [p for p in props if p["cls"] not in ("cover", "unwind", "recursion") and p["status"] == "FAILURE"]
    unsupported = [p for p in fails if p["cls"] == "unsupported_construct" or UNSUPPORTED_RE.search(p["description"])]
    real_fails = [p for p in fails if p not in unsupported]
    for c in covers:
        # Kani encodes cover!(c) as assert(!c): FAILURE == SATISFIED
        res["covers"][c["description"] + "@" + c["loc"].split("/")[-1]] = ("SATISFIED" if c["status"] == "FAILURE" else "UNSATISFIABLE")
    res["failed"] = [{"property": p["property"], "description": p["description"], "loc": p["loc"]} for p in real_fails[:20]]
    res["unwind_failed"] = [{"property": p["property"], "loc": p["loc"]} for p in unwind_fail[:10]]
    res["unsupported"] = [{"property": p["property"], "description": p["description"], "loc": p["loc"]} for p in unsupported[:10]]
    expect = h.expect
    if unwind_fail:
        res["verdict"] = "unwind"; res["note"] = "unwinding assertion failed (bound too small or non-terminating loop)"
        return res
    if unsupported:
        res["verdict"] = "inconclusive"; res["note"] = "reached a construct Kani does not model: " + unsupported[0]["description"][:200]
        return res
    if expect.startswith("panic:"):
        rx = re.compile(expect[6:])
        bad = [p for p in real_fails if not rx.search(p["description"])]
        reach_after = [k for k, v in res["covers"].items() if k.startswith("AFTER") and v == "SATISFIED"]
        if bad:
            res["verdict"] = "fail"; res["failed"] = [{"property": p["property"], "description": p["description"], "loc": p["loc"]} for p in bad[:20]]
            res["note"] = "failure other than the expected refusal"
        elif reach_after:
            res["verdict"] = "fail"; res["note"] = "operation did not refuse: code after the call is reachable (%s)" % reach_after[0]
            res["failed"] = [{"property": "refusal", "description": "expected panic matching /%s/ on every path, but the call can return" % expect[6:], "loc": reach_after[0]}]
        elif not real_fails:
            res["verdict"] = "vacuous"; res["note"] = "expected refusal never reached"
        else:
            vac = [k for k, v in res["covers"].items() if not k.startswith("AFTER") and v != "SATISFIED"]
            if vac: res["verdict"] = "vacuous"; res["note"] = "cover not satisfied: " + vac[0]
            else: res["verdict"] = "pass"
        return res
    if real_fails:
        res["verdict"] = "fail"; return res
    vac = [k for k, v in res["covers"].items() if v != "SATISFIED"]
    if vac:
        res["verdict"] = "vacuous"; res["note"] = "cover not satisfied: " + vac[0]; return res
    if not covers:
        res["note"] = "no cover witness in harness"
    res["verdict"] = "pass"
    return res

def run_all(pid, harnesses, jobs, time_scale=1.0, progress=None):
    """codegen + run. Returns (results, codegen_seconds, codegen_ok)."""
    rundir = os.path.join(BUILD, "run", pid)
    shutil.rmtree(rundir, ignore_errors=True)
    os.makedirs(rundir, exist_ok=True)
    gmap, cg_s = codegen(pid, harnesses, os.path.join(rundir, "codegen.log"))
    if gmap is None:
        return None, cg_s, False
    results = []
    missing = [h for h in harnesses if h.name not in gmap]
    for h in missing:
        results.append({"harness": h.name, "verdict": "inconclusive", "note": "harness not found in kani metadata", "wall_s": 0, "checks": 0, "failed": [], "covers": {}})
    todo = [h for h in harnesses if h.name in gmap]
    # longest first
    todo.sort(key=lambda h: -h.timeout)
    with cf.ThreadPoolExecutor(max_workers=jobs) as ex:
        futs = {ex.submit(run_harness, h, gmap[h.name][0], gmap[h.name][1], os.path.join(rundir, h.name), time_scale): h for h in todo}
        for f in cf.as_completed(futs):
            r = f.result()
            results.append(r)
            if progress: progress(r)
    order = {h.name: i for i, h in enumerate(harnesses)}
    results.sort(key=lambda r: order[r["harness"]])
    return results, cg_s, True
