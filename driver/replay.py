"""Native replay of solver counterexamples.

1. CBMC is re-run on the prepared goto binary with --trace --json-ui; for every failed (non-cover) property the
   values returned by kani::any_raw_* calls are read off the trace, in call order (this is what Kani's own
   concrete-playback does).
2. They are written as ordinary #[test]s calling kani::concrete_playback_run(values, harness) into
   /verif/.build/playback/<module>_v.rs, which the harness module include!s under cfg(all(kani, test)).
3. `cargo kani playback` builds /repo's working tree NATIVELY (no stubs, real HashMap, real allocator) and runs
   them, in the dev profile (what Kani models) and in --release (what users run).
A counterexample counts as reproduced iff the dev-profile native run panics.
"""
import os, sys, json, subprocess, time, re, fcntl, glob, shutil

ROOT = os.path.dirname(os.path.dirname(os.path.abspath(__file__)))
REPO = os.environ.get("VERIF_REPO", "/repo")
BUILD = os.path.join(ROOT, ".build")
PB = os.path.join(BUILD, "playback")

def _flatten_value(v, out):
    """value json -> list of little-endian bytes"""
    if v is None: return
    if "binary" in v and "width" in v:
        b = v["binary"]; w = int(v["width"])
        n = int(b, 2) if b else 0
        out.extend(list(n.to_bytes((w + 7) // 8, "little")))
    elif "elements" in v:
        for e in v["elements"]:
            _flatten_value(e.get("value"), out)
    elif "members" in v:
        for m in v["members"]:
            _flatten_value(m.get("value"), out)

_PRIM = {"u8": 1, "i8": 1, "bool": 1, "u16": 2, "i16": 2, "u32": 4, "i32": 4, "char": 4, "f32": 4, "u64": 8, "i64": 8, "usize": 8, "isize": 8, "f64": 8, "u128": 16, "i128": 16}

def _type_size(tname):
    tname = tname.strip()
    if tname in _PRIM: return _PRIM[tname]
    m = re.match(r"^\[(.+); (\d+)\]$", tname)
    if m:
        inner = _type_size(m.group(1))
        return None if inner is None else inner * int(m.group(2))
    return None

def extract_vals(trace):
    """One entry per kani::any_raw_* call (in call order): the bytes of its return value. Array-valued calls are
    assigned element-wise in the trace (lhs `ret[3l]`); elements the solver did not need are absent (-> 0)."""
    vals = []; cur = None
    for st in trace:
        t = st.get("stepType")
        if t == "function-call":
            dn = st.get("function", {}).get("displayName", "")
            if dn.startswith("kani::any_raw_") and cur is None:
                m = re.match(r"^kani::any_raw_array::<(.+), (\d+)>$", dn)
                m2 = re.match(r"^kani::any_raw_internal::<(.+)>$", dn)
                if m: cur = {"dn": dn, "n": int(m.group(2)), "esz": _type_size(m.group(1)), "elems": {}, "whole": None}
                else: cur = {"dn": dn, "n": None, "esz": _type_size(m2.group(1)) if m2 else None, "elems": {}, "whole": None}
        elif t == "function-return" and cur is not None:
            dn = st.get("function", {}).get("displayName", "")
            if dn == cur["dn"]:
                if cur["n"] is not None:
                    # natively, kani's playback draws an array element by element: one entry per element
                    esz = cur["esz"] or (len(next(iter(cur["elems"].values()))) if cur["elems"] else 1)
                    if cur["whole"] is not None and len(cur["whole"]) == esz * cur["n"]:
                        for k in range(cur["n"]): vals.append(cur["whole"][k * esz:(k + 1) * esz])
                    else:
                        for k in range(cur["n"]): vals.append(cur["elems"].get(k, [0] * esz))
                elif cur["whole"] is not None: vals.append(cur["whole"])
                else: vals.append([0] * (cur["esz"] or 1))
                cur = None
        elif t == "assignment" and cur is not None:
            lhs = st.get("lhs", "")
            if not lhs.startswith("goto_symex$$return_value"): continue
            b = []; _flatten_value(st.get("value"), b)
            m = re.search(r"\[(\d+)l?\]$", lhs)
            if m and cur["n"] is not None: cur["elems"][int(m.group(1))] = b
            else: cur["whole"] = b
    return vals

def ensure_playback_files():
    os.makedirs(PB, exist_ok=True)
    for f in glob.glob(os.path.join(ROOT, "incrate", "*_v.rs")):
        p = os.path.join(PB, os.path.basename(f))
        if not os.path.exists(p): open(p, "w").close()

def test_source(h, vals_list):
    src = ""
    for i, vals in enumerate(vals_list):
        src += "#[test]\nfn kani_concrete_playback_%s_%d() {\n    let concrete_vals: Vec<Vec<u8>> = vec![\n" % (h.name, i)
        for v in vals:
            src += "        vec![%s],\n" % ", ".join(str(x) for x in v)
        src += "    ];\n    kani::concrete_playback_run(concrete_vals, %s);\n}\n" % h.name
    return src

def run_native(modfile, src, name_filter, release, log, timeout=1800):
    """returns (ran, failed_tests:list)"""
    env = dict(os.environ); env["CARGO_NET_OFFLINE"] = "true"
    env["RUSTFLAGS"] = "-Zcrate-attr=feature(allocator_api)"
    env["CARGO_TARGET_DIR"] = os.path.join(BUILD, "playback_target" + ("_rel" if release else ""))
    if release:
        # `cargo kani playback` has no --release: emulate the release profile through cargo's env overrides
        for prof in ("DEV", "TEST"):
            env["CARGO_PROFILE_%s_OPT_LEVEL" % prof] = "3"
            env["CARGO_PROFILE_%s_OVERFLOW_CHECKS" % prof] = "false"
            env["CARGO_PROFILE_%s_DEBUG_ASSERTIONS" % prof] = "false"
    with open(os.path.join(BUILD, "playback.lock"), "w") as lk:
        fcntl.flock(lk, fcntl.LOCK_EX)
        ensure_playback_files()
        for f in glob.glob(os.path.join(PB, "*_v.rs")): open(f, "w").close()
        open(os.path.join(PB, modfile), "w").write(src)
        cmd = ["cargo", "kani", "playback", "-Z", "concrete-playback"] + ["--", name_filter, "--test-threads", "1"]
        with open(log, "w") as lf:
            lf.write("$ " + " ".join(cmd) + "\n"); lf.flush()
            try:
                r = subprocess.run(cmd, cwd=REPO, env=env, stdout=lf, stderr=subprocess.STDOUT, timeout=timeout, start_new_session=True)
                rc = r.returncode
            except subprocess.TimeoutExpired:
                rc = "timeout"
        open(os.path.join(PB, modfile), "w").close()
    txt = open(log, errors="replace").read()
    ran = re.search(r"test result: \w+\. (\d+) passed; (\d+) failed", txt)
    failed = re.findall(r"^test (\S+) \.\.\. FAILED", txt, re.M)
    panics = re.findall(r"panicked at ([^\n]*)\n([^\n]*)", txt)
    return (ran is not None), failed, panics, rc

def replay_counterexample(pid, h, r):
    from kani_engine import CBMC_FLAGS, _run
    rundir = os.path.join(BUILD, "run", pid, h.name)
    out = os.path.join(rundir, h.name + ".out")
    res = {"reproduced": False, "path": None, "note": ""}
    if not os.path.exists(out):
        res["note"] = "no goto binary"; return res
    tr = os.path.join(rundir, h.name + ".trace.json")
    open(tr, "w").close()
    cmd = ["cbmc"] + CBMC_FLAGS
    if h.unwind > 0: cmd += ["--unwind", str(h.unwind), "--unwinding-assertions"]
    for us in h.unwindset: cmd += ["--unwindset", us]
    if h.unwind > 0 and h.unwind < 40: cmd += ["--unwindset", "memcmp.0:40"]
    if h.memmodel == "loop" and h.unwind > 0:
        w = h.mcw or h.unwind
        for lp in ("memcpy.0", "memmove.0", "memmove.1"): cmd += ["--unwindset", "%s:%d" % (lp, w)]
        for lp in ("memcpy.1", "memmove.2", "memmove.3"): cmd += ["--unwindset", "%s:%d" % (lp, 8 * w)]
    if h.fs > 0: cmd += ["--max-field-sensitivity-array-size", str(h.fs)]
    cmd += [out, "--trace", "--json-ui"]
    rc = _run(cmd, tr, max(600, h.timeout * 2), max(h.mem, 16))
    body = "\n".join(l for l in open(tr, errors="replace").read().split("\n") if not l.startswith("$ "))
    try:
        msgs = json.loads(body[body.find("["):])
    except Exception:
        res["note"] = "trace run produced no parseable output (rc=%s)" % rc; return res
    # refusal harness (`@expect panic:<regex>`): a counterexample is either "the call can return" (AFTER cover reachable) or a panic
    # other than the expected refusal (e.g. the marker that stands for "started computing")
    refusal = h.expect.startswith("panic:")
    rx_expected = re.compile(h.expect[6:]) if refusal else None
    vals_list = []; seen = set(); which = []
    for m in msgs:
        if isinstance(m, dict) and "result" in m:
            for p in m["result"]:
                if p.get("status") != "FAILURE": continue
                cls = p.get("property", "").rsplit(".", 2)
                cls = cls[1] if len(cls) == 3 else ""
                if refusal:
                    after = (cls == "cover" and p.get("description", "").startswith("AFTER"))
                    unexpected = (cls != "cover" and not rx_expected.search(p.get("description", "")))
                    if not (after or unexpected): continue
                elif cls == "cover": continue
                vals = extract_vals(p.get("trace", []))
                key = json.dumps(vals)
                if key in seen: continue
                seen.add(key); vals_list.append(vals); which.append(p.get("property"))
                if len(vals_list) >= 6: break
    if not vals_list:
        res["note"] = "no failing trace found"; return res
    src = test_source(h, vals_list)
    modfile = os.path.basename(h.file)
    rdir = os.path.join(ROOT, "evidence", "replays", pid)
    os.makedirs(rdir, exist_ok=True)
    rpath = os.path.join(rdir, h.name + ".rs")
    with open(rpath, "w") as f:
        f.write("// Counterexample(s) found by CBMC for harness `%s` (%s), property %s.\n" % (h.name, os.path.relpath(h.file, ROOT), pid))
        f.write("// module-file: %s\n// failed checks: %s\n" % (modfile, ", ".join(str(w) for w in which)))
        f.write("// Replay natively against /repo:  /verif/check %s --replay %s\n" % (pid, rpath))
        f.write(src)
    res["path"] = rpath
    term = "term" in h.expect
    if term:
        # termination harness: build first (cheap no-op filter), then run with a short cap; a native run that does not
        # finish is the reproduction of a failed unwinding assertion
        run_native(modfile, src, "kani_concrete_playback_none_", False, os.path.join(rundir, "playback_build.log"))
    ran, failed, panics, rc = run_native(modfile, src, "kani_concrete_playback_" + h.name + "_", False, os.path.join(rundir, "playback_dev.log"), timeout=(180 if term else 1800))
    if term and rc == "timeout":
        subprocess.run("pkill -f 'heathcliff-.*kani_concrete_playback_%s_' || true" % h.name, shell=True)
        res["dev"] = {"ran": True, "failed_tests": 1, "panic": "native run did not terminate within 180 s (non-terminating loop)"}
        res["reproduced"] = True
        return res
    res["dev"] = {"ran": ran, "failed_tests": len(failed), "panic": (panics[0][0] + " " + panics[0][1])[:300] if panics else ""}
    if not ran:
        res["note"] = "native playback build/run failed (rc=%s), see %s" % (rc, os.path.join(rundir, "playback_dev.log")); return res
    out_of_vals = [p for p in panics if "concrete_playback.rs" in p[0] or "Not enough det vals" in p[1]]
    if refusal:
        # the harness expects a refusal (a panic matching the regex): the violation is reproduced when, on the solver's inputs, the
        # native run of the real code does NOT refuse that way -- it returns normally or panics with another message
        refused = [p for p in panics if rx_expected.search(p[1])]
        res["reproduced"] = len(refused) < len(vals_list) and not out_of_vals
        res["note"] = "refusal harness: native run did not refuse (returned or panicked otherwise)" if res["reproduced"] else "native run refuses (panics) as expected"
        return res
    res["reproduced"] = len(failed) > 0 and len(out_of_vals) < len(failed)
    tries = 1
    while not res["reproduced"] and not out_of_vals and tries < getattr(h, "replays", 1):
        # the code under test draws fresh entropy natively (an arbitrary-bytes stub in the model): the same inputs are replayed again;
        # ONE failing native run of the real code reproduces the violation
        ran, failed, panics, rc = run_native(modfile, src, "kani_concrete_playback_" + h.name + "_", False, os.path.join(rundir, "playback_dev.log"))
        out_of_vals = [p for p in panics if "concrete_playback.rs" in p[0] or "Not enough det vals" in p[1]]
        tries += 1
        if ran and len(failed) > 0 and not out_of_vals:
            res["reproduced"] = True
            res["dev"] = {"ran": ran, "failed_tests": len(failed), "panic": (panics[0][0] + " " + panics[0][1])[:300] if panics else "", "native_runs": tries}
    if res["reproduced"]:
        ran2, failed2, panics2, rc2 = run_native(modfile, src, "kani_concrete_playback_" + h.name + "_", True, os.path.join(rundir, "playback_release.log"))
        res["release"] = {"ran": ran2, "failed_tests": len(failed2), "panic": (panics2[0][0] + " " + panics2[0][1])[:300] if panics2 else ""}
    else:
        res["note"] = "solver counterexample passes natively (model/stub mismatch)"
    return res

def replay_file(pid, path):
    txt = open(path).read()
    m = re.search(r"// module-file: (\S+)", txt)
    if not m: print("not a replay file"); return 2
    modfile = m.group(1)
    src = "\n".join(l for l in txt.split("\n") if not l.startswith("//"))
    names = re.findall(r"fn (kani_concrete_playback_\w+)\(", src)
    prefix = os.path.commonprefix(names) if names else "kani_concrete_playback_"
    os.makedirs(os.path.join(BUILD, "run", pid), exist_ok=True)
    ran, failed, panics, rc = run_native(modfile, src, prefix, False, os.path.join(BUILD, "run", pid, "replay_cmd.log"))
    if not ran:
        print("replay could not be built/run, see %s" % os.path.join(BUILD, "run", pid, "replay_cmd.log")); return 2
    for p in panics[:3]: print("native panic: %s %s" % p)
    if failed:
        print("VIOLATION property=%s replay=%s" % (pid, path)); return 1
    print("replay passes on the current tree (%d tests)" % len(names)); return 0
