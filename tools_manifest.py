#!/usr/bin/env python3
"""Regenerates MANIFEST.json from the table below + the harness registry (run after adding harnesses)."""
import json, os, sys
ROOT = os.path.dirname(os.path.abspath(__file__))
sys.path.insert(0, os.path.join(ROOT, "driver"))
import registry

LEVEL_TEXT = {
 "C08": "Bounded model checking (Kani/CBMC) of the real word-level and multi-word helpers: each harness is decided for ALL values of its symbolic operands inside the stated bounds (full 64-bit limbs for carry/shift/compare helpers; concrete modulus family x full-width or sparse operands for Barrett-style kernels). Unit tests sample a handful of vectors; the defects found here (top-bit shifts, one-word results, stale destinations) live at corners no sample hits.",
}
NOTE = {
 "C08": "Trusted: kani-compiler's lowering of the real functions, CBMC 6.11 + cadical, the harness-side reference arithmetic (u128 limb formulas). Moduli are a concrete family (literals of the real Modulus::new); symbolic moduli and full-width 64x64 symbolic products are outside (do not finish). Loop-model memcpy replaces CBMC's builtin for symbolic sizes.",
}
NA = {
}
DEFAULT_NA = "no check built yet (build round in progress); not claimed"

def main():
    hs = registry.load_all()
    ids = sorted(set(h.id for h in hs if h.id.startswith("C")))
    props = [json.loads(l)["id"] for l in open(os.path.join(ROOT, "properties.jsonl"))]
    checks = []
    for pid in props:
        if pid not in ids or pid in NA: continue
        checks.append({
            "property_id": pid,
            "quick_cmd": "./check %s --tier quick" % pid,
            "thorough_cmd": "./check %s --tier thorough" % pid,
            "evidence_file": "/verif/evidence/%s.json" % pid,
            "replay_cmd_template": "./check %s --replay {path}" % pid,
            "engine": "K (Kani 0.68 / CBMC 6.11 on the real crate, harnesses compiled in-crate)",
            "level_claimed": {"category": "model_checking", "text": LEVEL_TEXT.get(pid, "Bounded model checking (Kani/CBMC) of the real functions over symbolic inputs inside stated bounds."), "design_ref": "DESIGN.md section 5." + str(int(pid[1:]))},
            "level_note": NOTE.get(pid, "Trusted: kani-compiler lowering, CBMC/cadical, harness-side reference computations; stubs listed per harness in the evidence."),
            "technique": "bounded model checking: symbolic execution of the compiled real code by Kani/CBMC, SAT verdict over all inputs within stated bounds; counterexamples replayed natively",
        })
    na = [{"property_id": p, "reason": NA.get(p, DEFAULT_NA)} for p in props if p not in [c["property_id"] for c in checks]]
    man = {
        "version": 1,
        "setup_cmd": "./setup.sh",
        "hooks": {
            "guard": "cfg(any(kani, heathcliff_verif))",
            "enable": "cargo kani (sets cfg(kani)) for the solver runs; RUSTFLAGS='--cfg heathcliff_verif' cargo test --lib verif_gen_ for the native literal generator",
            "baseline_off_cmd": "cd /repo && cargo test --workspace --no-fail-fast --offline",
            "source_commits": ["af13769", "804b544"],
            "add_only": True,
        },
        "engines": [
            {"name": "K", "path": "/verif/driver/kani_engine.py", "serves_properties": [c["property_id"] for c in checks],
             "kind_free_text": "Kani 0.68 / CBMC 6.11 (cadical) bounded model checking of the real crate; harnesses in /verif/incrate compiled into heathcliff as cfg-guarded child modules; literal tables regenerated from the real constructors on every run; native replay of counterexamples through cargo kani playback"},
        ],
        "checks": checks,
        "not_applicable": na,
        "notes": "Exit codes: 0 held, 1 VIOLATION (natively replayed), 2 inconclusive (never a pass). Known findings: /verif/known_findings.txt.",
    }
    json.dump(man, open(os.path.join(ROOT, "MANIFEST.json"), "w"), indent=1)
    print("claimed:", [c["property_id"] for c in checks], "na:", len(na))
if __name__ == "__main__": main()
