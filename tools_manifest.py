#!/usr/bin/env python3
"""Regenerates MANIFEST.json from the table below + the harness registry (run after adding harnesses)."""
import json, os, sys
ROOT = os.path.dirname(os.path.abspath(__file__))
sys.path.insert(0, os.path.join(ROOT, "driver"))
import registry

LEVEL_TEXT = {
 "C01": "Bounded model checking of the two deterministic links of encrypt/decrypt on the real code: scaling_variant::multiply_add/sub_plain adds exactly round(q*m/t) for every m < t (batching t, t = 2^k, non-ascending primes, short plaintexts; at a 60-bit prime with a 40-bit t in 256-value windows around the 64-bit carry of the numerator), BGV decryption returns the centred phase mod t times the inverse correction factor trimmed to the leading coefficient for EVERY ciphertext (N=2), public-key encryption of zero below the key level reads the key polynomials at the key level's stride (second component = sampled error when pk1 = 0, for every output of a stubbed randomness source), and (thorough) BFV Decryptor::decrypt returns round(t*phase/q) mod t for EVERY ciphertext and ternary key. The randomised sampling glue and CKKS float encoding are outside (stated). The suite encrypts one random vector per scheme; the solver covers all plaintext values and all ciphertexts inside the bounds.",
 "C02": "Bounded model checking, one inductive step per operation on ARBITRARY ciphertexts (not assumed to be well-formed encryptions): add/sub/negate residue-wise for all size pairs, BGV factor balancing (all 256 factor pairs at t=17), BGV tensor product for sizes (2,2),(3,2) (thorough: (2,3) and squaring) against a reference composed from the same word kernels, RNS polynomial kernels position-wise against arithmetic. Phase identities compose over programs of any length. BFV multiplication over the auxiliary base and relinearisation at the first level are not decided (key switching: see C04's lemma).",
 "C03": "Bounded model checking of the scale bookkeeping (product recorded bit-exactly for CKKS multiply and square, quotient by the prime dropped AT THE CIPHERTEXT'S OWN LEVEL for rescale below the first level, drop keeps the scale), of the slot-wise tensor product, and of the refusals (resulting scale does not fit the modulus for square/multiply, mismatched scales for add/sub); decoded complex error bounds (float FFT) are outside.",
 "C04": "Bounded model checking of the Galois machinery: GaloisTool::apply = X -> X^g with signs for every odd g (N<=16), the NTT permutation table is the evaluation-point map, step -> element and default key set, NAF; key switching at a lower chain level (phase_out = phase_in + target*s' + small) for every target under a fixed key (thorough: for every key satisfying the RLWE relation); rotation composition for every step at N=16 and for the steps reaching the +-N/2 NAF digits at N=32, with the automorphism stubbed by a recorder.",
 "C05": "Bounded model checking of one level step for every scheme (BFV rounding division against the CRT-composed integer, CKKS drop vs rescale with exact scale quotient, BGV with correction-factor bookkeeping), termination of rescale_to within the chain length (unwinding assertion), and refusals (past the last level, upward, rescale outside CKKS).",
 "C06": "Bounded model checking: the three API forms of add and of mod_switch_to_next agree field-wise even when the destination previously held another ciphertext, read-only operands are unchanged, results are valid; every single-field corruption of an operand (9 kinds) makes add_inplace refuse on every path.",
 "C07": "Bounded model checking: invariant_noise_budget equals the definition evaluated exactly by the harness (centered norm of t*phase mod q, bit counts) for every ciphertext at N=2 (key 1-X, incl. zero budget), also for a ciphertext below the first level (bit count of its own level's modulus). Fresh-budget bounds and k-fold addition bounds are not decided.",
 "C08": "Engine K (CBMC) for multi-word carry/shift/compare/multiply helpers at full 64-bit limb width with symbolic lengths and multi-word division with remainder (two-word divisor); engine M (MIR->SMT, cvc5/z3) for the Barrett-style kernels at full 64-bit operand width over a concrete modulus family (literals of the real Modulus::new), with native translator validation on every run.",
 "C09": "Engine K: forward NTT = evaluation at psi^(2*bitrev(i)+1) for all inputs (N=2,4; thorough N=8), inverse inverts, lazy forms stay in range and congruent, table equations incl. minimality of the root on the regenerated literals. Engine M: lazy butterfly arithmetic at full width for 31/61-bit moduli.",
 "C10": "Bounded model checking of RNS routines coefficient-wise against integer specifications for EVERY input below the base product: CRT compose/decompose (2 and 3 primes, both orders), fast base conversion (x + alpha*Q, incl. the operand==1 shortcut on tiny bases), rounding division by the last prime (coefficient and NTT form agree), the BGV variant (value preserved mod t; corners q_last = 1 mod t and q_last >> q_i), auxiliary-base sizing of the real RNSTool::new at its corners; thorough: decrypt_scale_and_round = exact rounding, NTT-form divisions agree with the coefficient forms.",
 "C11": "Bounded model checking on the real BatchEncoder (N=4, t=17): index map is the documented permutation, decode(encode(v)) = v for all slot vectors, zero-padding of short inputs into a reused destination, decoding of plaintexts with fewer than N coefficients, the Galois elements for steps +-1 and the column swap act as the documented row rotation / row swap.",
 "C12": "Bounded model checking of the integer entry point: every RNS component holds value mod q_j for every accepted i64 (incl. negatives beyond the prime), refusals; vector/complex paths (float FFT, libm) are not applicable to this technique and not claimed.",
 "C13": "Ground (no symbolic input) solver check that the chains produced by the real HeContext::new for 4 parameter families are doubly linked prefix chains with strictly decreasing indices and constants equal to their definitions. The symbolic error ladder of validate() is not decided.",
 "C14": "Bounded model checking of exact round trips with size accounting: scalars, Vec<u64>, byte-width packing for every limit 0..8, Plaintext, ciphertexts in compact/full/selected-terms formats (byte widths 1-3, three schemes, size 2-3). Empty and single-element 1-d/2-d/3-d containers in both formats; the stream layout of a seed-compressed ciphertext in the selected-terms format. Keys, parameters (Modulus::new is not analysable) and the PRNG expansion of seeds are not decided.",
 "C15": "Bounded model checking with a symbolic writer (1..8 bytes accepted per call, optional failure at any call) and symbolic truncation offsets for the scalar codecs every composite codec is built from, and a whole ciphertext written to a writer that accepts 3 or 8 bytes per call and fails at each call index in turn.",
 "C16": "Bounded model checking of the generator's buffering logic across the refill boundary with the stream as a symbolic array (chunking independence incl. reads that start on the last buffer byte, alignment of word reads, one counter step per refill), and well-formedness of ternary / centred-binomial / uniform samples for EVERY output of a nondeterministic randomness source (same small signed value in every RNS component, |error| <= 21, uniform below each modulus). Hash quality, freshness of entropy and sampler distributions are outside.",
 "C17": "Sequential histories only: the secret-key-power cache of a shared Decryptor never shrinks and a smaller request after a larger one returns the same plaintext. Kani has no threads: preemptive interleavings are not decided (stated honestly; see DESIGN A.6).",
 "C18": "Bounded model checking of the share-revelation protocol for 3 parties under both delivery orders through the real serializer, refusal to finish when a message is missing, histories with receive-before-send and redelivery (the party broadcasts exactly its own share); thorough: final decoding of a collectively computed BGV phase in NTT and coefficient form (the defect this harness found was repaired: fix 792d8a7).",
 "C19": "Bounded model checking: negacyclic_shift = X^s * p for every shift (N=4, 8), extract_lwe + assemble_lwe preserves coefficient i of the phase in every RNS component with three coefficient moduli (N=2, every key) and for every i at N=4 (thorough).",
}
NOTE = {
 "C08": "Trusted: kani-compiler's lowering, CBMC 6.11 + cadical, cvc5 1.0 / z3 5.x, the MIR interpreter (validated against the real functions on random vectors each run), harness-side reference arithmetic. Moduli are a concrete family; symbolic moduli and symbolic x symbolic 64-bit products are outside. Kernels not decided within the per-query cap are listed in the evidence and are outside the claim of that run.",
}
NA = {
 "C17": "not applicable to this technique: the property quantifies over thread interleavings; Kani/CBMC as installed has no model of threads (std::thread is unsupported), so no schedule other than a sequential one can be made symbolic. A sequential-history harness over the real Decryptor cache (c17_key_power_cache_sequential_orders: the cache never shrinks, a smaller request after a larger one returns the same plaintext) is kept as an unclaimed diagnostic; it does not decide linearizability.",
 "C20": "not applicable to solver-based checking within reach: deciding that homomorphic matrix products / convolutions decrypt to the plaintext result needs batch encoding, encryption, plaintext multiplication, rotations with Galois keys, LWE packing and decryption together at N >= 8 with several ciphertexts; measured costs (10-30 CPU-minutes for ONE evaluator operation at N=2) put the smallest instance orders of magnitude beyond a solver run, and checking only the block-search index arithmetic would not decide the property.",
}
DEFAULT_NA = "no check built yet (build round in progress); not claimed"

def main():
    hs = registry.load_all()
    ids = sorted(set(h.id for h in hs if h.id.startswith("C")))
    props = [json.loads(l)["id"] for l in open(os.path.join(ROOT, "properties.jsonl"))]
    checks = []
    for pid in props:
        if pid not in ids or pid in NA: continue
        checks.append({
            "property_id": pid,
            "quick_cmd": "./check %s --tier quick" % pid,
            "thorough_cmd": "./check %s --tier thorough" % pid,
            "evidence_file": "/verif/evidence/%s.json" % pid,
            "replay_cmd_template": "./check %s --replay {path}" % pid,
            "engine": "K (Kani 0.68 / CBMC 6.11 on the real crate, harnesses compiled in-crate)",
            "level_claimed": {"category": "model_checking", "text": LEVEL_TEXT.get(pid, "Bounded model checking (Kani/CBMC) of the real functions over symbolic inputs inside stated bounds."), "design_ref": "DESIGN.md section 5." + str(int(pid[1:]))},
            "level_note": NOTE.get(pid, "Trusted: kani-compiler lowering, CBMC/cadical, harness-side reference computations; stubs listed per harness in the evidence."),
            "technique": "bounded model checking: symbolic execution of the compiled real code by Kani/CBMC, SAT verdict over all inputs within stated bounds; counterexamples replayed natively",
        })
    na = [{"property_id": p, "reason": NA.get(p, DEFAULT_NA)} for p in props if p not in [c["property_id"] for c in checks]]
    man = {
        "version": 1,
        "setup_cmd": "./setup.sh",
        "hooks": {
            "guard": "cfg(any(kani, heathcliff_verif))",
            "enable": "cargo kani (sets cfg(kani)) for the solver runs; RUSTFLAGS='--cfg heathcliff_verif' cargo test --lib verif_gen_ for the native literal generator",
            "baseline_off_cmd": "cd /repo && cargo test --workspace --no-fail-fast --offline",
            "source_commits": ["af13769", "804b544"],
            "add_only": True,
        },
        "engines": [
            {"name": "K", "path": "/verif/driver/kani_engine.py", "serves_properties": [c["property_id"] for c in checks],
             "kind_free_text": "Kani 0.68 / CBMC 6.11 (cadical) bounded model checking of the real crate; harnesses in /verif/incrate compiled into heathcliff as cfg-guarded child modules; literal tables regenerated from the real constructors on every run; native replay of counterexamples through cargo kani playback"},
        ],
        "checks": checks,
        "not_applicable": na,
        "notes": "Exit codes: 0 held, 1 VIOLATION (natively replayed), 2 inconclusive (never a pass). Known findings: /verif/known_findings.txt.",
    }
    json.dump(man, open(os.path.join(ROOT, "MANIFEST.json"), "w"), indent=1)
    print("claimed:", [c["property_id"] for c in checks], "na:", len(na))
if __name__ == "__main__": main()
