#!/bin/bash
# usage: run_many.sh <tier> <ids...>   -- runs checks one after another, logs to /tmp/run_<id>.log (debug helper)
T=$1; shift
for id in "$@"; do timeout 7200 ./check $id --tier $T > /tmp/run_$id.log 2>&1; echo "$id rc=$?" >> /tmp/run_many.status; done
