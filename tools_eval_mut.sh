#!/bin/bash
# usage: tools_eval_mut.sh <seeded dir name> <property> [only-regex] [tier]
# applies the seeded patch to /repo, runs the check, reverts /repo. Output: /tmp/eval_<name>.log ; appends a line to /tmp/eval_summary.txt
N=$1; ID=$2; ONLY=$3; TIER=${4:-quick}
cd /verif
git -C /repo diff --quiet || { echo "/repo not clean"; exit 9; }
git -C /repo apply /verif/seeded/$N/patch.diff || { echo "$N patch does not apply" >> /tmp/eval_summary.txt; exit 8; }
if [ -n "$ONLY" ]; then timeout 5400 ./check $ID --tier $TIER --only "$ONLY" --no-evidence > /tmp/eval_$N.log 2>&1; else timeout 5400 ./check $ID --tier $TIER --no-evidence > /tmp/eval_$N.log 2>&1; fi
RC=$?
git -C /repo checkout -- .
echo "$N property=$ID only=$ONLY tier=$TIER rc=$RC $(grep -c '^VIOLATION' /tmp/eval_$N.log) violation lines; $(grep 'VIOLATION' /tmp/eval_$N.log | head -2 | tr '\n' ' ')" >> /tmp/eval_summary.txt
