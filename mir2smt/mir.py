"""mir2smt: symbolic execution of loop-free Rust MIR (text dump of `-Zunpretty=mir`) into SMT-LIB (Int theory with
explicit 2^k wrap points -- exact machine semantics because every wrap/overflow point is encoded).

Scope (deliberately small): integer/bool locals, tuples from *WithOverflow, fixed-size arrays and slices of integers,
structs addressed by field index, shared/mutable references to places, calls to crate-local functions (interpreted
recursively from their own MIR) and to a handful of core::num methods. Anything else raises Unsupported (the kernel is
then reported as NOT ENCODED, never skipped silently).  All paths are enumerated (functions are loop-free and small)."""
import re, copy

class Unsupported(Exception): pass

# ----------------------------------------------------------------------------------------------- terms
# A term is either a Python int / bool (concrete) or an SMT-LIB string.
def is_c(t): return isinstance(t, (int, bool))
def smt(t):
    if isinstance(t, bool): return "true" if t else "false"
    if isinstance(t, int): return str(t) if t >= 0 else "(- %d)" % (-t)
    return t
def t_add(a, b): return a + b if is_c(a) and is_c(b) else "(+ %s %s)" % (smt(a), smt(b))
def t_sub(a, b): return a - b if is_c(a) and is_c(b) else "(- %s %s)" % (smt(a), smt(b))
def t_mul(a, b):
    if is_c(a) and is_c(b): return a * b
    if is_c(a) and a == 0 or is_c(b) and b == 0: return 0
    if is_c(a) and a == 1: return b
    if is_c(b) and b == 1: return a
    return "(* %s %s)" % (smt(a), smt(b))
def t_div(a, b):      # floor division of non-negative values
    if is_c(a) and is_c(b): return a // b
    if is_c(b) and b == 1: return a
    return "(div %s %s)" % (smt(a), smt(b))
def t_mod(a, b):
    if is_c(a) and is_c(b): return a % b
    return "(mod %s %s)" % (smt(a), smt(b))
def t_ite(c, a, b):
    if is_c(c): return a if c else b
    if is_c(a) and is_c(b) and a == b: return a
    return "(ite %s %s %s)" % (smt(c), smt(a), smt(b))
def b_not(a): return (not a) if is_c(a) else "(not %s)" % a
def b_and(a, b):
    if is_c(a): return b if a else False
    if is_c(b): return a if b else False
    return "(and %s %s)" % (a, b)
def b_or(a, b):
    if is_c(a): return True if a else b
    if is_c(b): return True if b else a
    return "(or %s %s)" % (a, b)
def cmp(op, a, b):
    if is_c(a) and is_c(b):
        return {"<": a < b, "<=": a <= b, ">": a > b, ">=": a >= b, "=": a == b}[op]
    return "(%s %s %s)" % (op, smt(a), smt(b))

INT_TYPES = {"u8": 8, "u16": 16, "u32": 32, "u64": 64, "u128": 128, "usize": 64, "i8": 8, "i16": 16, "i32": 32, "i64": 64, "i128": 128, "isize": 64}
def width(ty):
    ty = ty.strip()
    if ty in INT_TYPES: return INT_TYPES[ty]
    if ty == "bool": return 1
    raise Unsupported("width of type " + ty)
def signed(ty): return ty.strip().startswith("i")

# ----------------------------------------------------------------------------------------------- values
class Ref:
    """reference to a place: (cell, path); cell is a one-element list holding the root value; for slices `length` is the slice length"""
    def __init__(self, cell, path, length=None): self.cell = cell; self.path = tuple(path); self.length = length
def get_path(v, path):
    for p in path: v = v[p]
    return v
def set_path(v, path, new):
    if not path: return new
    v = list(v); v[path[0]] = set_path(v[path[0]], path[1:], new); return v

# ----------------------------------------------------------------------------------------------- parser
class Fn:
    def __init__(self, name): self.name = name; self.params = []; self.types = {}; self.blocks = {}; self.ret = None

def parse(path):
    fns = {}
    cur = None; bb = None
    hdr = re.compile(r"^fn (.+?)\((.*)\) -> (.+?) \{$")
    with open(path) as f:
        for raw in f:
            line = raw.rstrip("\n")
            if line.startswith("fn "):
                m = hdr.match(line)
                if not m: cur = None; continue
                cur = Fn(m.group(1)); cur.ret = m.group(3)
                ps = m.group(2)
                for pm in re.finditer(r"(_\d+): ([^,]+(?:<[^>]*>)?[^,]*)", ps):
                    cur.params.append(pm.group(1)); cur.types[pm.group(1)] = pm.group(2).strip()
                fns.setdefault(cur.name, cur); bb = None
                continue
            if cur is None: continue
            s = line.strip()
            if line == "}": cur = None; continue
            m = re.match(r"^let (?:mut )?(_\d+): (.+);$", s)
            if m: cur.types[m.group(1)] = m.group(2); continue
            m = re.match(r"^(bb\d+)(?: \(cleanup\))?: \{$", s)
            if m: bb = m.group(1); cur.blocks[bb] = []; continue
            if bb is not None:
                if s == "}": bb = None; continue
                if s: cur.blocks[bb].append(s)
    return fns

# ----------------------------------------------------------------------------------------------- interpreter
class Frame:
    def __init__(self, fn): self.fn = fn; self.locals = {}; self.bb = "bb0"; self.idx = 0; self.dest = None; self.ret_bb = None
class State:
    def __init__(self): self.frames = []; self.pc = []; self.outcome = None; self.arg_refs = []

class Interp:
    def __init__(self, fns, aliases=None, max_paths=4000):
        self.fns = fns; self.aliases = aliases or {}; self.max_paths = max_paths; self.fresh = 0; self.calls = set()
        self.ub = {}; self.lowzero = {}   # syntactic facts: exclusive upper bound / number of zero low bits of a term
        self.defs = []          # (symbol, term): global definitions that keep terms small (sharing)
        self._memo = {}
    def share(self, t):
        """bind a large term to a fresh Int constant (definitional, valid on every path)"""
        if not isinstance(t, str) or len(t) < 48: return t
        if t in self._memo: return self._memo[t]
        name = "t!%d" % len(self.defs)
        self.defs.append((name, t)); self._memo[t] = name
        return name

    def resolve(self, name):
        name = name.strip()
        if name in self.aliases: name = self.aliases[name]
        if name in self.fns: return self.fns[name]
        m = re.match(r"^<(?:&|&mut )?([\w:]+)(?:<.*>)? as [^>]+>::(\w+)$", name)
        if m: name = m.group(1).split("::")[-1] + "::" + m.group(2)
        tail = name.split("::")
        for k in range(len(tail)):
            suf = "::".join(tail[k:])
            c = [f for n, f in self.fns.items() if n == suf or n.endswith("::" + suf)]
            if len(c) == 1: return c[0]
            if len(c) > 1:
                exact = [f for f in c if f.name.split("::")[-len(tail[k:]):] == tail[k:]]
                if len(exact) == 1: return exact[0]
                break
        # `Type::method` where the impl is printed as `<impl at file:line>`: match on method name + receiver type
        if len(tail) >= 2:
            ty, meth = tail[-2], tail[-1]
            c = [f for n, f in self.fns.items() if n.endswith("::" + meth) and f.params and
                 re.search(r"(^|[^\w])" + re.escape(ty) + r"($|[^\w])", f.types.get(f.params[0], ""))]
            if len(c) == 1: return c[0]
            if len(c) > 1: raise Unsupported("ambiguous callee %s: %s" % (name, [f.name for f in c][:4]))
        return None

    # ---- places
    def place(self, fr, txt):
        """returns Ref for a place expression like _3, (*_1)[_10], (_37.1: bool), ((*_1).0: u64), _4[_28]"""
        txt = txt.strip()
        m = re.match(r"^\((.+)\.(\d+): [^()]+\)$", txt)     # field projection with type annotation
        if m and self._balanced(m.group(1)):
            base = self.place(fr, m.group(1)); return Ref(base.cell, base.path + (int(m.group(2)),))
        m = re.match(r"^(.+)\[(_\d+)\]$", txt)
        if m and self._balanced(m.group(1)):
            base = self.place(fr, m.group(1)); i = self.read(fr, m.group(2))
            if not is_c(i): raise Unsupported("symbolic index " + txt)
            return Ref(base.cell, base.path + (i,))
        m = re.match(r"^(.+)\[(\d+) of \d+\]$", txt)
        if m:
            base = self.place(fr, m.group(1)); return Ref(base.cell, base.path + (int(m.group(2)),))
        m = re.match(r"^\(\*(.+)\)$", txt)
        if m:
            r = self.read(fr, m.group(1))
            if not isinstance(r, Ref): raise Unsupported("deref of non-reference " + txt)
            return r
        if re.match(r"^_\d+$", txt):
            if txt not in fr.locals: fr.locals[txt] = [None]
            return Ref(fr.locals[txt], ())
        raise Unsupported("place " + txt)
    def _balanced(self, s):
        d = 0
        for ch in s:
            if ch in "([": d += 1
            elif ch in ")]": d -= 1
            if d < 0: return False
        return d == 0
    def read(self, fr, txt):
        r = self.place(fr, txt); v = get_path(r.cell[0], r.path)
        if v is None: raise Unsupported("read of uninitialised place " + txt)
        return v
    def write(self, fr, txt, val):
        r = self.place(fr, txt); r.cell[0] = set_path(r.cell[0], r.path, val)

    # ---- operands / rvalues
    def operand(self, fr, txt):
        txt = txt.strip()
        if txt.startswith("copy ") or txt.startswith("move "): return self.read(fr, txt[5:])
        m = re.match(r"^const (-?\d+)_(\w+)$", txt)
        if m: return int(m.group(1))
        if txt == "const true": return True
        if txt == "const false": return False
        raise Unsupported("operand " + txt)
    def wrap(self, v, w): return self.share(t_mod(v, 1 << w))
    def binop(self, op, a, b, ty):
        w = width(ty)
        if signed(ty): raise Unsupported("signed arithmetic " + op)
        if op in ("Add", "AddUnchecked"): return self.wrap(t_add(a, b), w)
        if op in ("Sub", "SubUnchecked"): return self.wrap(t_sub(t_add(a, 1 << w), b), w)
        if op in ("Mul", "MulUnchecked"): return self.wrap(t_mul(a, b), w)
        if op == "Div": return self.share(t_div(a, b))
        if op == "Rem": return self.share(t_mod(a, b))
        if op in ("Shr", "ShrUnchecked"):
            if not is_c(b): raise Unsupported("symbolic shift amount")
            return self.share(t_div(a, 1 << b))
        if op in ("Shl", "ShlUnchecked"):
            if not is_c(b): raise Unsupported("symbolic shift amount")
            r = self.wrap(t_mul(a, 1 << b), w)
            if isinstance(r, str): self.lowzero[r] = b
            return r
        if op == "BitAnd":
            if is_c(a) and is_c(b): return a & b
            c, x = (a, b) if is_c(a) else (b, a)
            if is_c(c) and c >= 0 and (c & (c + 1)) == 0: return t_mod(x, c + 1)
            if ty == "bool": return b_and(a, b)
            raise Unsupported("BitAnd with non-mask constant")
        if op == "BitOr":
            if is_c(a) and is_c(b): return a | b
            if ty == "bool": return b_or(a, b)
            for x, y in ((a, b), (b, a)):
                k = self.lowzero.get(x, 0) if isinstance(x, str) else 0
                uby = (y + 1) if is_c(y) else self.ub.get(y)
                if k and uby is not None and uby <= (1 << k): return self.share(t_add(x, y))     # disjoint bit ranges: | is +
            raise Unsupported("BitOr of possibly overlapping operands")
        if op == "BitXor":
            if is_c(a) and is_c(b): return a ^ b
            raise Unsupported("BitXor")
        raise Unsupported("binop " + op)
    def rvalue(self, fr, txt, dest_ty):
        txt = txt.strip()
        m = re.match(r"^(Add|Sub|Mul)WithOverflow\((.+), (.+)\)$", txt)
        if m:
            a = self.operand(fr, m.group(2)); b = self.operand(fr, m.group(3))
            ety = dest_ty.strip("()").split(",")[0].strip(); w = width(ety)
            if signed(ety): raise Unsupported("signed overflow op")
            if m.group(1) == "Add": full = t_add(a, b); ov = cmp(">=", full, 1 << w)
            elif m.group(1) == "Sub": full = t_sub(a, b); ov = cmp("<", a, b); full = t_add(full, 1 << w)
            else: full = t_mul(a, b); ov = cmp(">=", full, 1 << w)
            return [self.wrap(full, w), ov]
        m = re.match(r"^(Lt|Le|Gt|Ge|Eq|Ne)\((.+), (.+)\)$", txt)
        if m:
            a = self.operand(fr, m.group(2)); b = self.operand(fr, m.group(3))
            op = {"Lt": "<", "Le": "<=", "Gt": ">", "Ge": ">=", "Eq": "=", "Ne": "="}[m.group(1)]
            if isinstance(a, bool) or isinstance(b, bool) or (isinstance(a, str) and a.startswith("(") and False):
                pass
            r = cmp(op, a, b)
            return b_not(r) if m.group(1) == "Ne" else r
        m = re.match(r"^(Add|Sub|Mul|Div|Rem|Shr|Shl|BitAnd|BitOr|BitXor|AddUnchecked|SubUnchecked|MulUnchecked|ShrUnchecked|ShlUnchecked)\((.+), (.+)\)$", txt)
        if m:
            a = self.operand(fr, m.group(2)); b = self.operand(fr, m.group(3))
            return self.binop(m.group(1), a, b, dest_ty)
        m = re.match(r"^Not\((.+)\)$", txt)
        if m:
            a = self.operand(fr, m.group(1))
            if dest_ty == "bool": return b_not(a)
            return t_sub((1 << width(dest_ty)) - 1, a)
        m = re.match(r"^PtrMetadata\((.+)\)$", txt)
        if m:
            r = self.operand(fr, m.group(1))
            if isinstance(r, Ref):
                if r.length is not None: return r.length
                return len(get_path(r.cell[0], r.path))
            raise Unsupported("PtrMetadata of non-ref")
        m = re.match(r"^(.+) as (.+) \((\w+)(?:\(.*\))?\)$", txt)
        if m:
            v = self.operand(fr, m.group(1)); ty = m.group(2).strip(); kind = m.group(3)
            if kind == "IntToInt":
                if isinstance(v, bool) or (isinstance(v, str) and self._is_bool_term(v)):
                    return t_ite(v, 1, 0)
                src_ty = self._operand_type(fr, m.group(1))
                if src_ty and (signed(src_ty) or signed(ty)): raise Unsupported("signed cast")
                if src_ty is not None and isinstance(v, str) and v not in self.ub: self.ub[v] = 1 << width(src_ty)
                return self.wrap(v, width(ty)) if (src_ty is None or width(src_ty) > width(ty)) else v
            if kind == "PointerCoercion": return v
            raise Unsupported("cast kind " + kind)
        m = re.match(r"^&(?:mut |raw (?:const|mut) |fake shallow |fake )?(?:\(fake\) )?(.+)$", txt)
        if m: return self.place(fr, m.group(1))
        m = re.match(r"^\[(.*)\]$", txt)
        if m:
            inner = m.group(1)
            mm = re.match(r"^(.+); (\d+)$", inner)
            if mm: v = self.operand(fr, mm.group(1)); return [v] * int(mm.group(2))
            return [self.operand(fr, x) for x in self._split_args(inner)]
        m = re.match(r"^\((.*)\)$", txt)
        if m and "," in m.group(1): return [self.operand(fr, x) for x in self._split_args(m.group(1)) if x.strip()]
        m = re.match(r"^([\w:<>]+) \{ (.*) \}$", txt)       # struct aggregate
        if m:
            fields = self._split_args(m.group(2))
            return [self.operand(fr, f.split(":", 1)[1]) for f in fields]
        return self.operand(fr, txt)
    def _is_bool_term(self, s):
        return s in ("true", "false") or s.startswith("(<") or s.startswith("(>") or s.startswith("(=") or s.startswith("(not") or s.startswith("(and") or s.startswith("(or")
    def _operand_type(self, fr, txt):
        m = re.match(r"^(?:copy|move) (_\d+)$", txt.strip())
        if m: return fr.fn.types.get(m.group(1))
        m = re.match(r"^(?:copy|move) \(.+: ([^()]+)\)$", txt.strip())
        if m: return m.group(1)
        return None
    def _split_args(self, s):
        out = []; d = 0; cur = ""
        for ch in s:
            if ch in "([{<": d += 1
            elif ch in ")]}>": d -= 1
            if ch == "," and d == 0: out.append(cur.strip()); cur = ""
            else: cur += ch
        if cur.strip(): out.append(cur.strip())
        return out

    # ---- builtin calls
    def builtin(self, name, args, fr):
        m = re.match(r"^<&?(u8|u16|u32|u64|u128|usize) as (Add|Sub|Mul)(?:<&?\w+>)?>::(add|sub|mul)$", name)
        if m:
            w = width(m.group(1))
            a, b = [get_path(x.cell[0], x.path) if isinstance(x, Ref) else x for x in args]
            if m.group(3) == "add": full = t_add(a, b); ov = cmp(">=", full, 1 << w); msg = "attempt to add with overflow"
            elif m.group(3) == "sub": full = t_sub(a, b); ov = cmp("<", a, b); msg = "attempt to subtract with overflow"
            else: full = t_mul(a, b); ov = cmp(">=", full, 1 << w); msg = "attempt to multiply with overflow"
            return ("checked", self.share(full) if not is_c(full) else full, ov, msg)
        m = re.match(r"^core::num::<impl (\w+)>::(\w+)$", name)
        if m:
            ty, meth = m.group(1), m.group(2); w = width(ty)
            if signed(ty): raise Unsupported("signed builtin " + name)
            if meth == "wrapping_add": return self.wrap(t_add(args[0], args[1]), w)
            if meth == "wrapping_sub": return self.wrap(t_sub(t_add(args[0], 1 << w), args[1]), w)
            if meth == "wrapping_mul": return self.wrap(t_mul(args[0], args[1]), w)
            if meth == "leading_zeros":
                if is_c(args[0]): return w - args[0].bit_length()
                raise Unsupported("symbolic leading_zeros")
            raise Unsupported("builtin " + name)
        return None

    # ---- execution
    def run(self, fname, args):
        """returns list of (pc_terms, outcome) where outcome = ('ret', value) | ('panic', message)"""
        fn = self.resolve(fname)
        if fn is None: raise Unsupported("function not found: " + fname)
        st = State(); fr = Frame(fn)
        for p, a in zip(fn.params, args): fr.locals[p] = [a]
        st.frames.append(fr)
        st.arg_refs = [a if isinstance(a, Ref) else None for a in args]     # part of the state: forks copy them consistently
        work = [st]; done = []
        while work:
            st = work.pop()
            self.step_until_branch(st, work, done)
            if len(done) + len(work) > self.max_paths: raise Unsupported("path explosion")
        return done

    def step_until_branch(self, st, work, done):
        while True:
            fr = st.frames[-1]
            stmts = fr.fn.blocks.get(fr.bb)
            if stmts is None: raise Unsupported("missing block " + fr.bb)
            s = stmts[fr.idx]; fr.idx += 1
            if s.startswith("StorageLive") or s.startswith("StorageDead") or s.startswith("nop") or s.startswith("FakeRead") or s.startswith("PlaceMention") or s.startswith("debug ") or s.startswith("scope ") or s.startswith("Retag") or s.startswith("AscribeUserType") or s.startswith("//"):
                continue
            if s == "return;":
                ret = fr.locals.get("_0", [None])[0]
                st.frames.pop()
                if not st.frames:
                    outs = [get_path(a.cell[0], a.path) if a is not None else None for a in st.arg_refs]
                    done.append((list(st.pc), ("ret", ret, outs))); return
                caller = st.frames[-1]
                if fr.dest: self.write(caller, fr.dest, ret if ret is not None else [])
                caller.bb = fr.ret_bb; caller.idx = 0
                continue
            if s.startswith("unreachable"):
                done.append((list(st.pc), ("panic", "unreachable reached"))); return
            m = re.match(r"^goto -> (bb\d+);$", s)
            if m: fr.bb = m.group(1); fr.idx = 0; continue
            m = re.match(r"^switchInt\((.+)\) -> \[(.+)\];$", s)
            if m:
                v = self.operand(fr, m.group(1))
                arms = [a.strip() for a in m.group(2).split(",")]
                targets = []; other = None
                for a in arms:
                    k, t = a.split(":"); k = k.strip(); t = t.strip()
                    if k == "otherwise": other = t
                    else: targets.append((int(k), t))
                if is_c(v):
                    vi = int(v); nxt = other
                    for k, t in targets:
                        if k == vi: nxt = t
                    fr.bb = nxt; fr.idx = 0; continue
                # symbolic: fork
                isb = self._is_bool_term(v) if isinstance(v, str) else False
                conds = []
                for k, t in targets:
                    c = (v if k == 1 else b_not(v)) if isb else cmp("=", v, k)
                    conds.append((c, t))
                if other is not None:
                    oc = True
                    for c, _ in conds: oc = b_and(oc, b_not(c))
                    conds.append((oc, other))
                first = True
                for c, t in conds[1:]:
                    s2 = copy.deepcopy(st); s2.pc.append(c); s2.frames[-1].bb = t; s2.frames[-1].idx = 0; work.append(s2)
                st.pc.append(conds[0][0]); fr.bb = conds[0][1]; fr.idx = 0
                continue
            m = re.match(r"^assert\((!?)(.+?), \"(.*?)\".*\) -> \[success: (bb\d+), unwind.*\];$", s)
            if m:
                c = self.operand(fr, m.group(2))
                if m.group(1) == "!": c = b_not(c)
                if is_c(c):
                    if c: fr.bb = m.group(4); fr.idx = 0; continue
                    done.append((list(st.pc), ("panic", m.group(3)))); return
                s2 = copy.deepcopy(st); s2.pc.append(b_not(c)); done.append((s2.pc, ("panic", m.group(3))))
                st.pc.append(c); fr.bb = m.group(4); fr.idx = 0
                continue
            m = re.match(r"^(.+?) = (.+)\((.*)\) -> \[return: (bb\d+), unwind.*\];$", s)
            if m and not m.group(2).strip().endswith("WithOverflow") and re.match(r"^[\w:<>& ,\[\]\.\-\(\)@/]+$", m.group(2)) and not re.match(r"^(Lt|Le|Gt|Ge|Eq|Ne|Add|Sub|Mul|Div|Rem|Shr|Shl|BitAnd|BitOr|BitXor|Not|PtrMetadata)$", m.group(2).strip()):
                dest, callee, argtxt, retbb = m.group(1).strip(), m.group(2).strip(), m.group(3), m.group(4)
                args = [self.operand(fr, a) for a in self._split_args(argtxt)]
                b = self.builtin(callee, args, fr)
                if isinstance(b, tuple) and b and b[0] == "checked":
                    _, val, ov, msg = b
                    if is_c(ov):
                        if ov: done.append((list(st.pc), ("panic", msg))); return
                    else:
                        s2 = copy.deepcopy(st); s2.pc.append(ov); done.append((s2.pc, ("panic", msg)))
                        st.pc.append(b_not(ov))
                    self.write(fr, dest, val); fr.bb = retbb; fr.idx = 0; continue
                if b is not None:
                    self.write(fr, dest, b); fr.bb = retbb; fr.idx = 0; continue
                fn = self.resolve(callee)
                if fn is None: raise Unsupported("call to unknown function " + callee)
                self.calls.add(fn.name)
                nf = Frame(fn); nf.dest = dest; nf.ret_bb = retbb
                for p, a in zip(fn.params, args): nf.locals[p] = [a]
                st.frames.append(nf)
                continue
            m = re.match(r"^(.+?) = (.+) -> \[return: (bb\d+), unwind.*\];$", s)
            if m: raise Unsupported("call form: " + s[:120])
            m = re.match(r"^(.+?) = (.+);$", s)
            if m:
                dest = m.group(1).strip()
                dty = self._dest_type(fr, dest)
                self.write(fr, dest, self.rvalue(fr, m.group(2), dty))
                continue
            raise Unsupported("statement: " + s[:160])

    def _dest_type(self, fr, dest):
        if re.match(r"^_\d+$", dest): return fr.fn.types.get(dest, "u64")
        m = re.match(r"^\(.+: ([^()]+)\)$", dest)
        if m: return m.group(1)
        # (*_3) / _3[_10] etc: element type of the pointee
        m = re.match(r"^\(\*(_\d+)\)$", dest)
        if m:
            t = fr.fn.types.get(m.group(1), "")
            mm = re.match(r"^&(?:mut )?(.+)$", t)
            if mm: return mm.group(1)
        m = re.match(r"^(?:\(\*)?(_\d+)\)?\[_\d+\]$", dest)
        if m:
            t = fr.fn.types.get(m.group(1), "")
            mm = re.search(r"\[(\w+)(?:; \d+)?\]", t)
            if mm: return mm.group(1)
        return "u64"
