"""Rewrites an SMT-LIB script so that every (div A C) / (mod A C) with a constant divisor C becomes a pair of fresh integers
(d, r) with the defining lemma  A = C*d + r /\ 0 <= r < C  -- the result is pure linear integer arithmetic, which z3/cvc5
decide quickly where their native div/mod handling of 64/128-bit constants does not finish."""
import re

def tokenize(s):
    return re.findall(r"\(|\)|[^\s()]+", s)

def parse(tokens, i=0):
    if tokens[i] == "(":
        lst = []; i += 1
        while tokens[i] != ")":
            node, i = parse(tokens, i); lst.append(node)
        return lst, i + 1
    return tokens[i], i + 1

def parse_all(s):
    toks = tokenize(s); i = 0; out = []
    while i < len(toks):
        node, i = parse(toks, i); out.append(node)
    return out

def show(n):
    return n if isinstance(n, str) else "(" + " ".join(show(x) for x in n) + ")"

class Rewriter:
    def __init__(self): self.k = 0; self.decls = []; self.memo = {}
    def rw(self, n):
        if isinstance(n, str): return n
        n = [self.rw(x) for x in n]
        if len(n) == 3 and n[0] in ("div", "mod") and isinstance(n[2], str) and re.match(r"^\d+$", n[2]):
            key = show(n[1]) + "/" + n[2]
            if key not in self.memo:
                d = "dv!%d" % self.k; r = "rm!%d" % self.k; self.k += 1
                self.decls.append("(declare-const %s Int) (declare-const %s Int)" % (d, r))
                self.decls.append("(assert (= %s (+ (* %s %s) %s)))" % (show(n[1]), n[2], d, r))
                self.decls.append("(assert (and (>= %s 0) (< %s %s)))" % (r, r, n[2]))
                self.memo[key] = (d, r)
            d, r = self.memo[key]
            return d if n[0] == "div" else r
        return n

def linearize(script):
    rw = Rewriter(); out = []
    for cmd in parse_all(script):
        if isinstance(cmd, list) and cmd and cmd[0] == "assert":
            body = rw.rw(cmd[1])
            out.extend(rw.decls); rw.decls = []
            out.append("(assert %s)" % show(body))
        elif isinstance(cmd, list) and cmd and cmd[0] == "set-logic":
            out.append("(set-logic QF_NIA)")
        else:
            out.append(show(cmd))
    return "\n".join(out) + "\n"
