"""Kernel list of engine M: which real functions are encoded, under which precondition, against which specification.

Every kernel is decided for ALL operand values in its documented range at each CONCRETE modulus of the family
(the Modulus structs are the literals produced by the real Modulus::new at the current commit)."""
import mir
from mir import cmp, b_and, b_or, b_not, t_add, t_sub, t_mul, t_mod, t_div, t_ite, smt

U64 = 1 << 64

def modulus_struct(m):
    # field order of `struct Modulus { value, const_ratio, u64_count, bit_count, is_prime }`
    return [m["value"], list(m["const_ratio"]), m["u64_count"], m["bit_count"], bool(m["is_prime"])]

def mref(m): return mir.Ref([modulus_struct(m)], ())

class K:
    """one kernel instance: fn = MIR function name, vars = {symbol: exclusive upper bound}, args, pre, post(ret, cells)"""
    def __init__(self, name, fn, vars, args, pre, post, note="", obs=None):
        self.name = name; self.fn = fn; self.vars = vars; self.args = args; self.pre = pre; self.post = post; self.note = note
        self.obs = obs or (lambda r, c: [r])      # what the native oracle prints for this kernel

def kernels_for_modulus(m, tier, env=None):
    V = (lambda n: env.get(n, 0)) if env else (lambda n: n)
    q = m["value"]; out = []
    tag = "q%d" % q
    # --- modular add/sub/negate/increment/decrement/halve
    out.append(K("add_u64_mod@" + tag, "uintsmallmod::add_u64_mod", {"a": U64, "b": U64}, [V("a"), V("b"), mref(m)],
                 b_and(cmp("<", V("a"), q), cmp("<", V("b"), q)), lambda r, c: cmp("=", r, t_mod(t_add(V("a"), V("b")), q))))
    out.append(K("sub_u64_mod@" + tag, "uintsmallmod::sub_u64_mod", {"a": U64, "b": U64}, [V("a"), V("b"), mref(m)],
                 b_and(cmp("<", V("a"), q), cmp("<", V("b"), q)), lambda r, c: cmp("=", r, t_mod(t_sub(t_add(V("a"), q), V("b")), q))))
    out.append(K("negate_u64_mod@" + tag, "uintsmallmod::negate_u64_mod", {"a": U64}, [V("a"), mref(m)],
                 cmp("<", V("a"), q), lambda r, c: cmp("=", r, t_mod(t_sub(q, V("a")), q))))
    out.append(K("increment_u64_mod@" + tag, "uintsmallmod::increment_u64_mod", {"a": U64}, [V("a"), mref(m)],
                 cmp("<=", V("a"), 2 * q - 2), lambda r, c: cmp("=", r, t_mod(t_add(V("a"), 1), q))))
    out.append(K("decrement_u64_mod@" + tag, "uintsmallmod::decrement_u64_mod", {"a": U64}, [V("a"), mref(m)],
                 cmp("<", V("a"), q), lambda r, c: cmp("=", r, t_mod(t_add(V("a"), q - 1), q))))
    # --- Barrett reductions
    out.append(K("barrett_reduce_u64@" + tag, "uintsmallmod::barrett_reduce_u64", {"x": U64}, [V("x"), mref(m)],
                 True, lambda r, c: cmp("=", r, t_mod(V("x"), q))))
    out.append(K("Modulus::reduce@" + tag, "Modulus::reduce", {"x": U64}, [mref(m), V("x")],
                 True, lambda r, c: cmp("=", r, t_mod(V("x"), q))))
    ladder = [8, 16, 24] if tier == "quick" else [8, 16, 24, 32, 48, 64]
    for hb in ladder:
        inp = mir.Ref([[V("lo"), V("hi")]], (), length=2)
        val = t_add(t_mul(V("hi"), U64), V("lo"))
        out.append(K("barrett_reduce_u128[hi<2^%d]@%s" % (hb, tag), "uintsmallmod::barrett_reduce_u128", {"lo": U64, "hi": U64}, [inp, mref(m)],
                     b_and(cmp("<", V("hi"), q), cmp("<", V("hi"), 1 << hb)), lambda r, c, val=val: cmp("=", r, t_mod(val, q)),
                     note="documented precondition: input < q*2^64 (hi < q); ladder rung hi < 2^%d" % hb))
    # --- multiplication by a precomputed operand: y in a small set incl. extremes; quotient from the real definition
    ys = sorted(set([0, 1 % q, q // 2, q - 1, (q * 2) // 3]))
    for y in ys:
        op = [y, (y << 64) // q]
        out.append(K("multiply_u64operand_mod[y=%d]@%s" % (y, tag), "uintsmallmod::multiply_u64operand_mod", {"x": U64},
                     [V("x"), mir.Ref([op], ()), mref(m)], True, lambda r, c, y=y: cmp("=", r, t_mod(t_mul(V("x"), y), q))))
        out.append(K("multiply_u64operand_mod_lazy[y=%d]@%s" % (y, tag), "uintsmallmod::multiply_u64operand_mod_lazy", {"x": U64},
                     [V("x"), mir.Ref([op], ()), mref(m)], True,
                     lambda r, c, y=y: b_and(cmp("<", r, 2 * q), cmp("=", t_mod(r, q), t_mod(t_mul(V("x"), y), q)))))
        out.append(K("multiply_u64operand_add_u64_mod[y=%d]@%s" % (y, tag), "uintsmallmod::multiply_u64operand_add_u64_mod", {"x": U64, "z": U64},
                     [V("x"), mir.Ref([op], ()), V("z"), mref(m)], True,
                     lambda r, c, y=y: cmp("=", r, t_mod(t_add(t_mul(V("x"), y), V("z")), q))))
    # --- the quotient computed by the real set_quotient for EVERY operand below q
    out.append(K("MultiplyU64ModOperand::set_quotient@" + tag, "MultiplyU64ModOperand::set_quotient", {"y": U64}, [mir.Ref([[V("y"), 0]], ()), mref(m)],
                 cmp("<", V("y"), q), lambda r, c: b_and(cmp("=", c[0][1], t_div(t_mul(V("y"), U64), q)), cmp("=", c[0][0], V("y"))), obs=lambda r, c: [c[0][1]]))
    # --- lazy NTT arithmetic (ModArithLazy { modulus, two_times_modulus }) when 4q fits
    if q < (1 << 61):
        ar = lambda: mir.Ref([[modulus_struct(m), 2 * q]], ())
        xr = lambda s: mir.Ref([s], ())
        out.append(K("ModArithLazy::guard@" + tag, "ModArithLazy::guard", {"x": U64}, [ar(), xr(V("x"))], cmp("<", V("x"), 4 * q),
                     lambda r, c: b_and(cmp("<", r, 2 * q), cmp("=", t_mod(r, q), t_mod(V("x"), q)))))
        out.append(K("ModArithLazy::sub@" + tag, "ModArithLazy::sub", {"x": U64, "y": U64}, [ar(), xr(V("x")), xr(V("y"))],
                     b_and(cmp("<", V("x"), 2 * q), cmp("<", V("y"), 2 * q)),
                     lambda r, c: b_and(cmp("<", r, 4 * q), cmp("=", t_mod(r, q), t_mod(t_sub(t_add(V("x"), 2 * q), V("y")), q)))))
        out.append(K("ModArithLazy::add@" + tag, "ModArithLazy::add", {"x": U64, "y": U64}, [ar(), xr(V("x")), xr(V("y"))],
                     b_and(cmp("<", V("x"), 2 * q), cmp("<", V("y"), 2 * q)),
                     lambda r, c: b_and(cmp("<", r, 4 * q), cmp("=", t_mod(r, q), t_mod(t_add(V("x"), V("y")), q)))))
        for y in ys[1:3]:
            op = [y, (y << 64) // q]
            out.append(K("ModArithLazy::mul_root[w=%d]@%s" % (y, tag), "ModArithLazy::mul_root", {"x": U64}, [ar(), xr(V("x")), mir.Ref([op], ())],
                         cmp("<", V("x"), 4 * q), lambda r, c, y=y: b_and(cmp("<", r, 2 * q), cmp("=", t_mod(r, q), t_mod(t_mul(V("x"), y), q)))))
    return out

def kernels_plain(tier, env=None):
    V = (lambda n: env.get(n, 0)) if env else (lambda n: n)
    """modulus-free word helpers (full width); c[i] = final value behind the i-th (reference) argument"""
    out = []
    out.append(K("add_u64", "basic::add_u64", {"a": U64, "b": U64}, [V("a"), V("b"), mir.Ref([0], ())], True,
                 lambda r, c: b_and(cmp("=", t_add(t_mul(r, U64), c[2]), t_add(V("a"), V("b"))), cmp("<=", r, 1)), obs=lambda r, c: [r, c[2]]))
    out.append(K("add_u64_carry", "add_u64_carry", {"a": U64, "b": U64, "k": 2}, [V("a"), V("b"), V("k"), mir.Ref([0], ())], True,
                 lambda r, c: b_and(cmp("=", t_add(t_mul(r, U64), c[3]), t_add(t_add(V("a"), V("b")), V("k"))), cmp("<=", r, 1)), obs=lambda r, c: [r, c[3]]))
    out.append(K("sub_u64", "basic::sub_u64", {"a": U64, "b": U64}, [V("a"), V("b"), mir.Ref([0], ())], True,
                 lambda r, c: b_and(cmp("=", t_sub(c[2], t_mul(r, U64)), t_sub(V("a"), V("b"))), cmp("<=", r, 1)), obs=lambda r, c: [r, c[2]]))
    out.append(K("sub_u64_borrow", "sub_u64_borrow", {"a": U64, "b": U64, "k": 2}, [V("a"), V("b"), V("k"), mir.Ref([0], ())], True,
                 lambda r, c: b_and(cmp("=", t_sub(c[3], t_mul(r, U64)), t_sub(t_sub(V("a"), V("b")), V("k"))), cmp("<=", r, 1)), obs=lambda r, c: [r, c[3]]))
    out.append(K("multiply_u64_high_word", "basic::multiply_u64_high_word", {"a": U64, "b": 1 << 20}, [V("a"), V("b"), mir.Ref([0], ())], True,
                 lambda r, c: cmp("=", c[2], t_div(t_mul(V("a"), V("b")), U64)), note="second operand below 2^20 (symbolic x symbolic products are non-linear)", obs=lambda r, c: [c[2]]))
    return out

ALIASES = {
    "<ModArithLazy as Arithmetic>::add": "ntt::<impl at src/util/ntt.rs:14:1: 14:33>::add",
}
