#!/usr/bin/env python3
"""debug helper: print failed properties of a harness run. usage: tools_fails.py <ID> <harness>"""
import sys, os
sys.path.insert(0, os.path.join(os.path.dirname(os.path.abspath(__file__)), "driver"))
import kani_engine
pid, h = sys.argv[1], sys.argv[2]
props, status, errors = kani_engine.parse_cbmc_json(os.path.join(kani_engine.BUILD, "run", pid, h, h + ".cbmc.json"))
print(status, errors[:3])
n = 0
for p in props:
    if p["status"] != "SUCCESS":
        n += 1
        if n > 15: break
        print(p["cls"], p["status"], p["description"][:150], p["loc"], p["function"][:60])
