#!/usr/bin/env python3
"""Record the outcome of seeded-mutation evaluations (logs /tmp/eval_<name>.log written by tools_eval_par.sh / tools_eval_mut.sh)
into seeded/<name>/meta.json (checks_run, caught_by) and seeded/RESULTS.md.  Usage: tools_record_mut.py [summary file]"""
import os, re, json, sys, glob
ROOT = os.path.dirname(os.path.abspath(__file__))
summ = sys.argv[1] if len(sys.argv) > 1 else "/tmp/eval_summary.txt"
runs = {}
lines = [l for l in open(summ)]
last_line_of = {}
for idx, line in enumerate(lines):
    m = re.match(r"(\S+) property=", line)
    if m: last_line_of[m.group(1)] = idx
for idx, line in enumerate(lines):
    m = re.match(r"(\S+) property=(\S+) only=(.*?) tier=(\S+) rc=(\d+)", line)
    if not m: continue
    name, pid, only, tier, rc = m.groups()
    if last_line_of.get(name) != idx: continue      # /tmp/eval_<name>.log holds only the LAST run of a change; earlier runs were recorded when they were the last
    log = "/tmp/eval_%s.log" % name
    viol = []; ran = []; inconc = []
    if os.path.exists(log):
        for l in open(log, errors="replace"):
            mm = re.match(r"VIOLATION property=\S+ replay=(\S+)", l)
            if mm: viol.append(os.path.splitext(os.path.basename(mm.group(1)))[0])
            mk = re.match(r"\s+\[K\] (\S+)\s+(\S+)", l)
            if mk:
                ran.append(mk.group(1))
                if mk.group(2) not in ("pass", "fail", "unwind"): inconc.append(mk.group(1))
    runs.setdefault(name, []).append({"check": "./check %s --tier %s%s" % (pid, tier, (" --only '%s'" % only) if only else ""),
                                      "exit": int(rc), "harnesses_run": len(ran), "violations": viol, "inconclusive": inconc})
MISS = {
 "C05_m2": "OBSOLETE: equivalent on the current tree -- fix dacb5da writes the input's correction factor into the destination before this line, so reading it back from the destination gives the same value (its demonstration passes with the patch applied); it re-creates the stale-metadata defect that fix repaired",
 "C13_m3": "outside reach: is_prime (Miller-Rabin over rand::thread_rng) cannot be compiled by kani-compiler (ICE) and its modular exponentiation loop does not finish in CBMC; prime generation / primality is listed as not decided for C13",
 "C12_m1": "outside reach: vector/complex entry point goes through the floating-point FFT and f64 rounding (not applicable, see DESIGN C12)",
 "C12_m2": "outside reach: multi-precision float decomposition loop (f64 %, / by 2^64) -- floating-point entry points are not applicable (measured OOM, see incrate/ckks_encoder_v.rs)",
 "C12_m3": "outside reach: coefficient-list entry point; a harness with concrete values and a symbolic stale destination exhausted 40 GB (powi/log2/ceil/round through CBMC's libm models)",
 "C14_m1": "outside reach: deserializing EncryptionParameters calls Modulus::new -> is_prime -> thread_rng, which kani-compiler cannot compile; parameter serialization is listed as not decided for C14",
 "C16_m3": "outside reach: lives in key generation (fresh entropy per key component); needs the BLAKE-based PRNG and the RLWE sampling glue inside CBMC -- freshness across draws is listed as not decided for C16",
 "C18_m1": "outside reach: the smudging noise of the key-switching protocol is sampled from the PRNG (CKKS branch); the randomised protocols are listed as not decided for C18",
 "C19_m3": "not decided: pack_lwe_ciphertexts runs field traces with key switching over log2(N) Galois keys; trace / pack are listed as not decided for C19",
 "C01_m2": "detected but not reportable: c01_pk_encrypt_zero_lower_level_stride FAILS on the changed code (exit 2), but its counterexample does not reproduce natively in 12 replays -- the real function draws fresh entropy for the error term where the model has arbitrary bytes, and the solver picks a product that the native error masks; by the rules a non-reproducing counterexample is never reported as a violation",
}
rows = []
for d in sorted(glob.glob(os.path.join(ROOT, "seeded", "*_m*"))):
    name = os.path.basename(d); mp = os.path.join(d, "meta.json")
    meta = json.load(open(mp))
    prev = {r["check"]: r for r in meta.get("checks_run", []) if isinstance(r, dict)}
    for r in runs.get(name, []): prev[r["check"]] = r          # the latest run of the same command replaces the older one
    meta["checks_run"] = list(prev.values())
    caught = sorted(set(v for r in meta["checks_run"] for v in r["violations"] if r["exit"] == 1))
    meta["caught_by"] = caught if caught else (None if not meta["checks_run"] else [])
    meta["miss_reason"] = MISS.get(name) if not caught else None
    json.dump(meta, open(mp, "w"), indent=1)
    lg = "/tmp/eval_%s.log" % name
    if os.path.exists(lg):
        open(os.path.join(d, "eval_tail.txt"), "w").write("".join(open(lg, errors="replace").readlines()[-25:]))
    first = meta.get("what_it_needs_to_manifest", "").strip().split("\n")[0][:140]
    rows.append((name, meta["property"], "caught" if caught else ("not run" if not meta["checks_run"] else "MISSED"),
                 ", ".join(caught) if caught else (meta.get("miss_reason") or ""), first))
with open(os.path.join(ROOT, "seeded", "RESULTS.md"), "w") as f:
    f.write("# Seeded changes: which check catches which\n\nEach change compiles and passes the 78-test suite; `caught` = the listed check exits 1 with a natively\nreplayed VIOLATION when the patch is applied to a copy of /repo (tools_eval_par.sh), and exits 0 without it.\n\n")
    f.write("| change | property | outcome | caught by / why missed | change (first line of its description) |\n|---|---|---|---|---|\n")
    for r in rows: f.write("| %s | %s | %s | %s | %s |\n" % tuple(x.replace("|", "/") for x in r))
    n = len(rows); c = len([r for r in rows if r[2] == "caught"])
    f.write("\n%d of %d seeded changes are caught; %d missed; %d not evaluated.\n" % (c, n, len([r for r in rows if r[2] == "MISSED"]), len([r for r in rows if r[2] == "not run"])))
print(open(os.path.join(ROOT, "seeded", "RESULTS.md")).read()[-400:])
